"""C20 - the server loads configs only from its root, and threads keep the exact history.

Part A (path confinement).  Config ids = every string made of <= k tokens over a hostile
token set (see TOKENS), sent as `config_id`, as `config_ids=[id]`, and as the 2nd / 1st
element of a two-element `config_ids` list, against the real FastAPI app in multi-config
and in single-config mode, over HTTP (fastapi TestClient, raw JSON body so NUL and lone
surrogates travel too) *and* by calling `api._get_rails` directly.  `RailsConfig.from_path`
is wrapped by a recorder; `LLMRails` in api.py's namespace is a cheap echoing fake.
Oracle: every recorded path, realpath-ed, is the root or below it; the request ends in the
fixed "Could not load the [...] guardrails configuration" reply or in a served reply whose
loads were all inside the root; never an unhandled exception / HTTP 500 / other reply.

Part B (threads).  Breadth-first search over all request sequences of length <= d, request
= thread_id in {T1, T2, none} x new messages in {[m1], [m2], [m1, m2]}, against the real
`chat_completion` endpoint with the MemoryStore; state (dedup key) = datastore contents.
Oracle = dict-of-lists reference model.  A deterministic subset of sequences is replayed
from a fresh app state (fresh store, empty rails cache) without any state restoration.
"""
from __future__ import annotations

import asyncio
import copy
import hashlib
import itertools
import json
import os
import random
import shutil
import tempfile
import time
import traceback
import warnings

from vf import par

PROP = "C20"

# The request without any config id ("" / [] / field absent, no server default) is answered by a
# deliberate `raise GuardrailsConfigurationError(...)` in chat_completion.  It carries no id, so it
# is outside "for any config_id/config_ids in a request"; it is counted, not reported.
NO_ID_ERROR_IS_VIOLATION = False

MAX_VIOL_PER_SIG = 40

# ------------------------------------------------------------------ part A: tokens
# (name, value) - values starting with "@" are resolved against the scratch tree.
TOKENS = [
    ("a", "a"),
    ("cfg1", "cfg1"),
    ("cfg2", "cfg2"),
    ("dot", "."),
    ("dotdot", ".."),
    ("slash", "/"),
    ("backslash", "\\"),
    ("%2e", "%2e"),
    ("%2f", "%2f"),
    ("NUL", "\x00"),
    ("space", " "),
    ("tilde", "~"),
    ("dash", "-"),
    ("fullwidth-dot", "．"),
    ("fullwidth-slash", "／"),
    ("lone-surrogate", "\ud800"),
    (".yml", ".yml"),
    ("ABS_OUTSIDE", "@other/cfg1"),          # absolute path of an unrelated sibling config
    ("ABS_ROOT", "@root"),                   # absolute path of the root itself
    ("ABS_PREFIX_SIBLING", "@rootx/cfg1"),   # absolute path of a sibling whose name extends "root"
    ("REL_PREFIX_SIBLING", "rootx/cfg1"),    # tail for `../rootx/cfg1`
    # composite tokens: traversals that are NOT at the start of the id fit into k tokens
    ("up", "/.."),
    ("up2", "/../.."),
    ("SLASH_REL_PREFIX_SIBLING", "/rootx/cfg1"),
    # percent-encoded traversals (an id must never be decoded a second time on its way to the file system)
    ("ENC_UP", "%2e%2e%2f"),
    ("ENC_REL_PREFIX_SIBLING", "rootx%2fcfg1"),
    ("ENC2_UP", "%252e%252e%252f"),
]

FIXED = "Could not load the {ids} guardrails configuration. An internal error has occurred."
USER_MSG = [{"role": "user", "content": "hi"}]


def fake_reply(messages):
    blob = json.dumps(messages, sort_keys=True)
    return {"role": "assistant", "content": "r:" + hashlib.sha1(blob.encode()).hexdigest()[:10]}


class FakeRails:
    """Stands in for LLMRails inside api.py: remembers what it was given, echoes a digest."""

    constructed = []
    calls = []
    served_by = []          # per call: the `instructions` texts of the configuration the serving instance was built from
    main_llm_supports_streaming = True

    def __init__(self, config=None, verbose=False, **kw):
        self.config = config
        self.events_history_cache = {}
        FakeRails.constructed.append(config)

    async def generate_async(self, prompt=None, messages=None, options=None, state=None,
                             streaming_handler=None):
        FakeRails.calls.append(copy.deepcopy(messages))
        FakeRails.served_by.append([i.content for i in (getattr(self.config, "instructions", None) or [])])
        reply = fake_reply(messages)
        if streaming_handler is not None:
            text = reply["content"]
            await streaming_handler.push_chunk(text[:3])
            await streaming_handler.push_chunk(text[3:])
            await streaming_handler.push_chunk(None)
        return reply


def make_store():
    """MemoryStore with latency: `set` / `get` give control back to the event loop before they act (like a network
    store); a reply that goes out before the thread is written shows as a lost write"""
    from nemoguardrails.server.datastore.memory_store import MemoryStore

    class SlowMemoryStore(MemoryStore):
        async def set(self, key, value):
            await asyncio.sleep(0.002)
            await super().set(key, value)

        async def get(self, key):
            await asyncio.sleep(0)
            return await super().get(key)

    return SlowMemoryStore()


# ------------------------------------------------------------------ world (scratch tree + patches)
class World:
    def __init__(self):
        from fastapi.testclient import TestClient  # noqa: F401  (import before fork)
        from nemoguardrails import RailsConfig
        from nemoguardrails.server import api
        from nemoguardrails.server.datastore.memory_store import MemoryStore

        self.api = api
        self.RailsConfig = RailsConfig
        self.base = os.path.realpath(tempfile.mkdtemp(prefix="vf_c20_"))
        for d in ("root/cfg1", "root/cfg2", "other/cfg1", "rootx/cfg1"):
            p = os.path.join(self.base, d)
            os.makedirs(p)
            with open(os.path.join(p, "config.yml"), "w") as f:
                f.write("models: []\ninstructions:\n  - type: general\n    content: \"marker %s\"\n" % d)
        self.root = os.path.join(self.base, "root")
        # files directly in the root: `a.yml` is a well-formed single-file configuration, `cfg1.yml` a YAML list
        with open(os.path.join(self.root, "a.yml"), "w") as f:
            f.write("models: []\ninstructions:\n  - type: general\n    content: \"marker root/a.yml\"\n")
        with open(os.path.join(self.root, "cfg1.yml"), "w") as f:
            f.write("- just\n- a list\n")
        # part C: a root whose directory names collide under a '-' join
        for d in ("a", "b", "c", "a-b", "b-c"):
            p = os.path.join(self.base, "rootc", d)
            os.makedirs(p)
            with open(os.path.join(p, "config.yml"), "w") as f:
                f.write("models: []\ninstructions:\n  - type: general\n    content: \"marker rootc/%s\"\n" % d)
        # part D: a configuration that a REAL LLMRails can serve (scripted LLM, fake embedding engine)
        p = os.path.join(self.base, "rootd", "real")
        os.makedirs(p)
        os.makedirs(os.path.join(self.base, "rootd", "other"))
        from vf.engines.world import EMB_YAML
        for d in ("real", "other"):
            with open(os.path.join(self.base, "rootd", d, "config.yml"), "w") as f:
                f.write(EMB_YAML)
        self.loads = []
        self._saved = {
            "from_path": RailsConfig.__dict__["from_path"],
            "LLMRails": api.LLMRails,
            "datastore": api.datastore,
            "app": {k: getattr(api.app, k) for k in
                    ("rails_config_path", "single_config_mode", "single_config_id",
                     "default_config_id", "disable_chat_ui", "auto_reload")},
            "instances": dict(api.llm_rails_instances),
        }
        orig = self._saved["from_path"].__func__
        loads = self.loads

        def from_path(cls, config_path, *a, **kw):
            loads.append(config_path)
            return orig(cls, config_path, *a, **kw)

        RailsConfig.from_path = classmethod(from_path)
        api.LLMRails = FakeRails
        self.store = make_store()
        api.register_datastore(self.store)
        api.app.disable_chat_ui = True
        api.app.auto_reload = False
        api.app.default_config_id = None
        # let the server's own start-up code decide the mode for each root
        self.modes = {}
        for mode, path in (("multi", self.root), ("single", os.path.join(self.root, "cfg1")), ("multic", os.path.join(self.base, "rootc")),
                           ("multid", os.path.join(self.base, "rootd"))):
            api.app.single_config_mode = False
            api.app.single_config_id = None
            api.app.rails_config_path = path
            asyncio.run(api.startup_event())
            self.modes[mode] = (path, api.app.single_config_mode, api.app.single_config_id)
        if self.modes["multi"][1] or not self.modes["single"][1] or self.modes["multic"][1] or self.modes["multid"][1]:
            raise RuntimeError(f"HARNESS-ERROR: startup_event did not derive the expected modes: {self.modes}")
        self._client = None
        self._client_pid = None
        self.set_mode("multi")

    def set_mode(self, mode):
        path, single, sid = self.modes[mode]
        app = self.api.app
        app.rails_config_path = path
        app.single_config_mode = single
        app.single_config_id = sid
        app.default_config_id = None
        self.mode = mode
        self.mode_root = os.path.realpath(path)

    def client(self):
        if self._client is None or self._client_pid != os.getpid():
            from fastapi.testclient import TestClient
            self._client = TestClient(self.api.app)
            self._client_pid = os.getpid()
        return self._client

    def token_value(self, i):
        v = TOKENS[i][1]
        if v.startswith("@"):
            return os.path.join(self.base, v[1:])
        return v

    def render(self, tup):
        return "".join(self.token_value(i) for i in tup)

    def reset_case(self):
        self.api.llm_rails_instances.clear()
        self.api.llm_rails_events_history_cache.clear()
        del self.loads[:]
        del FakeRails.constructed[:]
        del FakeRails.calls[:]
        del FakeRails.served_by[:]

    def fresh_store(self):
        self.store = make_store()
        self.api.register_datastore(self.store)

    def close(self):
        api = self.api
        self.RailsConfig.from_path = self._saved["from_path"]
        api.LLMRails = self._saved["LLMRails"]
        api.datastore = self._saved["datastore"]
        for k, v in self._saved["app"].items():
            setattr(api.app, k, v)
        api.llm_rails_instances.clear()
        api.llm_rails_instances.update(self._saved["instances"])
        shutil.rmtree(self.base, ignore_errors=True)


_W: World = None  # set by run()/replay() before forking


def _where(exc):
    """innermost frame of the library under test in the traceback: file:function"""
    best = "?"
    for fr, _ln in traceback.walk_tb(exc.__traceback__):
        fn = fr.f_code.co_filename
        if "nemoguardrails" in fn and "/vf/" not in fn:
            best = os.path.basename(fn) + ":" + getattr(fr.f_code, "co_qualname", fr.f_code.co_name)
    return best


def _post(body, stream=False):
    """-> dict(kind=reply|status|exc, ...). Raw JSON body (ensure_ascii) so every str travels.
    stream=True: the body of the response is the streamed text itself (read to its end)."""
    c = _W.client()
    try:
        with warnings.catch_warnings():
            warnings.simplefilter("ignore")
            r = c.post("/v1/chat/completions", content=json.dumps(body),
                       headers={"content-type": "application/json"})
    except Exception as e:  # the app raised (TestClient re-raises) == HTTP 500 on a real server
        return {"kind": "exc", "type": type(e).__name__, "where": _where(e), "msg": str(e)[:200]}
    if r.status_code != 200:
        return {"kind": "status", "status": r.status_code, "text": r.text[:200]}
    if stream and not r.text.lstrip().startswith("{"):
        return {"kind": "reply", "messages": [{"role": "assistant", "content": r.text}], "streamed": True}
    try:
        js = r.json()
        msgs = js["messages"]
    except Exception:
        return {"kind": "status", "status": 200, "text": "unparsable body: " + r.text[:200]}
    return {"kind": "reply", "messages": msgs}


# ------------------------------------------------------------------ part A: one case
def _realpath(p):
    try:
        return os.path.realpath(p)
    except ValueError:  # embedded NUL / surrogate: cannot exist on disk
        return os.path.normpath(os.path.abspath(p.replace("\x00", "\\0")))


def _inside(rp, root):
    return rp == root or rp.startswith(root + os.sep)


def _outside_where(rp):
    b = _W.base
    if rp.startswith(os.path.join(b, "root")) and not _inside(rp, os.path.join(b, "root")):
        return "prefix-sharing-sibling"            # <root>x..., what a commonprefix test lets through
    if _inside(rp, os.path.join(b, "other")):
        return "sibling"
    if _inside(rp, os.path.join(b, "root")):
        return "other-config-of-server-root"      # only possible in single-config mode
    if _inside(b, rp):
        return "ancestor"
    return "elsewhere"


class _Req:
    headers = {}


def _endpoint_direct(ids):
    """await api.chat_completion(...) with an unvalidated body object (no HTTP, no JSON)."""
    api = _W.api
    from nemoguardrails.rails.llm.options import GenerationOptions
    body = api.RequestBody.model_construct(
        config_id=None, config_ids=list(ids), thread_id=None, messages=copy.deepcopy(USER_MSG),
        context=None, stream=False, options=GenerationOptions(), state=None)
    try:
        res = asyncio.run(api.chat_completion(body, _Req()))
    except Exception as e:
        return {"kind": "exc", "type": type(e).__name__, "where": _where(e), "msg": str(e)[:200]}
    msgs = res.get("messages") if isinstance(res, dict) else None
    if msgs and msgs[0].get("content") == FIXED.format(ids=list(ids)):
        return {"kind": "rejected", "msg": "(endpoint) fixed reply"}
    if msgs and FakeRails.calls and msgs == [fake_reply(FakeRails.calls[-1])]:
        return {"kind": "served"}
    return {"kind": "other-reply", "content": ascii(res)[:200]}


def a_eval(mode, channel, form, ids):
    """Run one case on the real code. -> observation dict."""
    W = _W
    if W.mode != mode:
        W.set_mode(mode)
    W.reset_case()
    if channel == "direct":
        try:
            W.api._get_rails(list(ids))
            obs = {"kind": "served"}
        except ValueError as e:
            obs = {"kind": "rejected", "msg": str(e)[:120]}
        except Exception as e:
            # not a ValueError: would the endpoint let it escape (HTTP 500)?  Ask the real handler,
            # bypassing HTTP/JSON/validation, so the verdict does not depend on where a fix is placed.
            obs = _endpoint_direct(ids)
            if obs["kind"] == "exc":
                obs = {"kind": "exc", "type": type(e).__name__, "where": _where(e), "msg": str(e)[:200]}
    else:
        body = {"messages": USER_MSG}
        if form == "single":
            body["config_id"] = ids[0]
        elif form == "absent":
            pass
        else:
            body["config_ids"] = list(ids)
        r = _post(body)
        if r["kind"] == "reply":
            msgs = r["messages"]
            content = msgs[0].get("content") if len(msgs) == 1 and isinstance(msgs[0], dict) else None
            if content == FIXED.format(ids=list(ids)):
                obs = {"kind": "rejected"}
            elif FakeRails.calls and msgs == [fake_reply(FakeRails.calls[-1])]:
                obs = {"kind": "served"}
            else:
                obs = {"kind": "other-reply", "content": ascii(msgs)[:200]}
        else:
            obs = r
    obs["loads"] = list(W.loads)
    obs["constructed"] = len(FakeRails.constructed)
    return obs


def a_judge(mode, channel, form, ids, obs):
    """-> list of (signature, what). The whole oracle of part A."""
    out = []
    root = _W.mode_root
    case = f"mode={mode} {channel}/{form} ids={ascii(list(ids))}"
    for p in obs["loads"]:
        rp = _realpath(p)
        if not _inside(rp, root):
            out.append((f"load-outside-root:{mode}:{_outside_where(rp)}",
                        f"{case}: RailsConfig.from_path({ascii(p)}) resolves to {ascii(rp)} which is not under "
                        f"the root {root} (outcome: {obs['kind']})"))
            break
        if mode != "single" and rp == root:
            out.append((f"load-of-the-root-itself:{mode}",
                        f"{case}: RailsConfig.from_path({ascii(p)}) loads the root folder itself (all configurations below it merged "
                        f"into one), which is not a configuration directory inside the root (outcome: {obs['kind']})"))
            break
        if os.path.isfile(rp):
            out.append((f"load-of-a-file:{mode}",
                        f"{case}: RailsConfig.from_path({ascii(p)}) loads a file, not a configuration directory (outcome: {obs['kind']})"))
            break
    no_id = form == "absent" or (form == "single" and ids[0] == "") or (form != "single" and len(ids) == 0)
    k = obs["kind"]
    if k == "exc":
        deliberate = no_id and obs["type"] == "GuardrailsConfigurationError"
        if not deliberate or NO_ID_ERROR_IS_VIOLATION:
            out.append((f"unhandled:{obs['type']}:{obs['where']}",
                        f"{case}: unhandled {obs['type']} ({obs['msg']}) raised in {obs['where']} - HTTP 500 instead of "
                        f"the fixed 'Could not load' reply"))
    elif k == "status":
        out.append((f"http-status:{obs['status']}", f"{case}: HTTP {obs['status']} {obs['text']}"))
    elif k == "other-reply":
        out.append(("unexpected-reply", f"{case}: neither the fixed reply nor a served reply: {obs['content']}"))
    elif k == "served":
        need = 1 if mode == "single" else len(ids)
        if len(obs["loads"]) != need or obs["constructed"] != 1:
            out.append((f"served-without-recorded-load:{mode}",
                        f"{case}: served although {len(obs['loads'])} load(s) were recorded (expected {need}); "
                        f"confinement cannot be vouched for"))
    valid = (mode == "multi" and len(ids) > 0 and all(i in ("cfg1", "cfg2") for i in ids)) or \
            (mode == "single" and list(ids) == ["cfg1"])
    if valid and k == "rejected":
        out.append((f"valid-id-not-served:{mode}", f"{case}: an existing config directly under the root was refused"))
    return out


def a_cases(mode, s):
    if mode == "multi":
        return [("http", "single", (s,)), ("http", "list1", (s,)), ("http", "list2-second", ("cfg1", s)),
                ("http", "list2-first", (s, "cfg2")),
                ("direct", "list1", (s,)), ("direct", "list2-second", ("cfg1", s)), ("direct", "list2-first", (s, "cfg2"))]
    return [("http", "single", (s,)), ("http", "list1", (s,)),
            ("direct", "list1", (s,)), ("direct", "list2-second", ("cfg1", s))]


def _branch(msg):
    if msg == "Invalid config_id.":
        return "guard_separator_or_dotdot"
    if msg.startswith("Access to the specified path"):
        return "guard_commonprefix"
    if msg.startswith("Invalid configuration ids"):
        return "guard_single_config_mode"
    if msg.startswith("Invalid config path"):
        return "from_path_not_a_config"
    if msg.startswith("(endpoint)"):
        return "endpoint_handler_non_valueerror"
    return "from_path_other_valueerror"


def _escaping(mode, s):
    """reference resolution (statistics only): would root/<s> leave the root if nobody checked?"""
    root = _W.mode_root
    if mode == "single":
        return s != "cfg1"
    try:
        return not _inside(_realpath(os.path.normpath(os.path.join(root, s))), root)
    except ValueError:
        return False


def a_task(task):
    mode, tuples, channels = task
    W = _W
    counts = {}
    viols = []
    samples = []
    sampled = set()
    per_sig = {}

    def bump(k, n=1):
        counts[k] = counts.get(k, 0) + n

    for tup in tuples:
        s = W.render(tup)
        attempted = False
        guarded = False
        for channel, form, ids in a_cases(mode, s):
            if channel not in channels:
                continue
            obs = a_eval(mode, channel, form, ids)
            bump("evaluations")
            bump(f"A_{mode}_{channel}_{obs['kind']}")
            if len(ids) == 1:      # only the cases in which <s> is the whole request say something about <s>
                if obs["loads"]:
                    attempted = True
                elif obs["kind"] == "rejected":
                    guarded = True
            if channel == "direct" and obs["kind"] == "rejected":
                bump(f"A_{mode}_branch_{_branch(obs['msg'])}")
            bump("A_from_path_calls", len(obs["loads"]))
            for sig, what in a_judge(mode, channel, form, ids, obs):
                bump("A_violating_cases")
                per_sig[sig] = per_sig.get(sig, 0) + 1
                if per_sig[sig] <= 2:
                    viols.append((sig, what, {"part": "A", "mode": mode, "channel": channel, "form": form,
                                              "ids_tokens": _ids_tokens(form, tup), "ids": [ascii(i) for i in ids],
                                              "observed": obs}))
            if form == "single" and len(tup) >= 2 and bool(obs["loads"]) not in sampled:
                sampled.add(bool(obs["loads"]))
                samples.append({"part": "A", "mode": mode, "tokens": [TOKENS[i][0] for i in tup],
                                "config_id": ascii(s), "outcome": obs["kind"],
                                "from_path": [ascii(p) for p in obs["loads"]]})
        bump("A_ids")
        if attempted:
            bump(f"A_ids_load_attempted_{mode}")
        if _escaping(mode, s) and guarded and not attempted:
            bump(f"A_ids_escaping_and_guarded_{mode}")
    return {"counts": counts, "viols": viols, "sig_counts": per_sig, "samples": samples}


def _ids_tokens(form, tup):
    names = [TOKENS[i][0] for i in tup]
    if form == "list2-second":
        return [["cfg1"], names]
    if form == "list2-first":
        return [names, ["cfg2"]]
    return [names]


# tokens that only take part in ids of <= 2 tokens in the quick tier (the thorough tier uses every token at every length)
RARE_IN_QUICK = {"%2e", "%2f", "NUL", "space", "tilde", "fullwidth-dot", "fullwidth-slash", "lone-surrogate", "ENC_UP", "ENC_REL_PREFIX_SIBLING", "ENC2_UP"}


def a_enumerate(k, reduced_long=False):
    """all token tuples of length <= k whose rendering is new (first tokenization wins)."""
    seen = set()
    out = []
    n = len(TOKENS)
    for ln in range(0, k + 1):
        idx = range(n) if not (reduced_long and ln >= 3) else [i for i in range(n) if TOKENS[i][0] not in RARE_IN_QUICK]
        for tup in itertools.product(idx, repeat=ln):
            s = _W.render(tup)
            if s in seen:
                continue
            seen.add(s)
            out.append(tup)
    return out


def run_a(rep, tier, deadline):
    k = 3 if tier == "quick" else 4
    tuples = a_enumerate(k, reduced_long=(tier == "quick"))
    rep.set("A_tokens_only_in_short_ids", sorted(RARE_IN_QUICK) if tier == "quick" else [])
    rep.set("A_k_tokens", k)
    rep.set("A_token_set", [t[0] for t in TOKENS])
    rep.set("A_distinct_ids", len(tuples))
    chunk = 150
    tasks = []
    for mode in ("multi", "single"):
        for i in range(0, len(tuples), chunk):
            tasks.append((mode, tuples[i:i + chunk], ("direct", "http")))
    if rep.seed:
        random.Random(rep.seed).shuffle(tasks)
    done = 0
    sig_total = {}
    collected = []
    n_samples = 0
    for res in par.pmap(a_task, tasks, chunksize=1, deadline=deadline):
        done += 1
        rep.merge_counts(res["counts"])
        for s in res["samples"]:
            if n_samples < 4 and bool(s["from_path"]) == (n_samples % 2 == 0):
                n_samples += 1
                rep.sample(s)
        for sig, n in res["sig_counts"].items():
            sig_total[sig] = sig_total.get(sig, 0) + n
        collected.extend(res["viols"])
    # smallest counterexample first (workers finish in any order)
    collected.sort(key=lambda v: (sum(len(x) for x in v[2]["ids_tokens"]), len(v[2]["ids_tokens"]),
                                  v[2]["channel"] != "http", json.dumps(v[2]["ids_tokens"]), v[2]["mode"], v[2]["form"] != "single"))
    for sig, what, rp in collected:
        _report(rep, sig, what, rp)
    # the requests that carry no id at all (one per mode and shape)
    for mode in ("multi", "single"):
        for form, ids in (("absent", ()), ("list0", ())):
            obs = a_eval(mode, "http", form, ids)
            rep.add("evaluations")
            rep.add("A_no_id_requests")
            if obs["kind"] == "exc" and obs["type"] == "GuardrailsConfigurationError":
                rep.add("A_no_id_deliberate_GuardrailsConfigurationError")
            for sig, what in a_judge(mode, "http", form, ids, obs):
                sig_total[sig] = sig_total.get(sig, 0) + 1
                _report(rep, sig, what, {"part": "A", "mode": mode, "channel": "http", "form": form,
                                         "ids_tokens": [], "ids": [], "observed": obs})
    rep.set("A_tasks_planned", len(tasks))
    rep.set("A_tasks_done", done)
    if sig_total:
        rep.set("A_violating_cases_by_signature", sig_total)
    return done == len(tasks)


_reported = {}


def _report(rep, sig, what, rp):
    n = _reported.get(sig, 0)
    _reported[sig] = n + 1
    if n < MAX_VIOL_PER_SIG:
        rep.violation(sig, what, rp)


# ------------------------------------------------------------------ part B: threads
T1 = "thread-aaaaaaaaa"      # 16 chars; T1 is a proper prefix of T2 on purpose
T2 = "thread-aaaaaaaaab"
THREADS = {"T1": T1, "T2": T2, "none": None}
MSGS = {"m1": {"role": "user", "content": "m1"}, "m2": {"role": "user", "content": "m2"}}
CTX = {"k": "c1"}             # the request's `context` field ("C" in a request's message tuple): the server puts it
CTX_MSG = {"role": "context", "content": CTX}   # in front of the request's new messages as a context message
# "S" in a request's message tuple: the request asks for a streamed reply (`stream: true`)
B_ALPHABET = [(t, ms) for t in ("T1", "T2", "none") for ms in (("m1",), ("m2",), ("m1", "m2"), ("C", "m1"), ("S", "m2"))]


def _new_messages(ms):
    return ([copy.deepcopy(CTX_MSG)] if "C" in ms else []) + [copy.deepcopy(MSGS[m]) for m in ms if m not in ("C", "S")]


def b_body(req):
    t, ms = req
    body = {"config_id": "cfg1", "messages": [copy.deepcopy(MSGS[m]) for m in ms if m not in ("C", "S")]}
    if "C" in ms:
        body["context"] = copy.deepcopy(CTX)
    if "S" in ms:
        body["stream"] = True
    if THREADS[t] is not None:
        body["thread_id"] = THREADS[t]
    return body


def b_do(req):
    """one request on the real endpoint -> observation"""
    del FakeRails.calls[:]
    r = _post(b_body(req), stream="S" in req[1])
    r["used"] = copy.deepcopy(FakeRails.calls)
    store = _W.api.datastore
    r["store_values"] = sorted((json.loads(v) for v in store.data.values()), key=lambda x: json.dumps(x, sort_keys=True))
    r["store_keys"] = sorted(store.data.keys())
    return r


def b_expect(model, req):
    """reference model: dict thread -> list of messages"""
    t, ms = req
    new = _new_messages(ms)
    used = (list(model.get(t, [])) if t != "none" else []) + new
    reply = fake_reply(used)
    model2 = {k: list(v) for k, v in model.items()}
    if t != "none":
        model2[t] = used + [reply]
    return used, reply, model2


def _content(msgs):
    return [m.get("content") if isinstance(m, dict) else m for m in msgs]


def b_judge(model, req, obs):
    """-> (list of (signature, what), model2)"""
    used_e, reply_e, model2 = b_expect(model, req)
    t, ms = req
    out = []
    case = f"request thread={t} new={list(ms)} with stored threads {{{', '.join(k + ':' + str(_content(v)) for k, v in sorted(model.items()))}}}"
    if obs["kind"] != "reply":
        out.append((f"thread:request-failed:{obs.get('type') or obs.get('status')}",
                    f"{case}: {obs['kind']} {obs.get('type') or obs.get('status')} {obs.get('msg') or obs.get('text')}"))
        return out, model2
    if len(obs["used"]) != 1:
        out.append(("thread:generate-call-count", f"{case}: generate_async called {len(obs['used'])} times"))
        return out, model2
    used = obs["used"][0]
    if used != used_e:
        new = _new_messages(ms)
        stored = list(model.get(t, [])) if t != "none" else []
        others = [m for k, v in model.items() if k != t for m in v if m.get("role") == "assistant"]
        if t == "none":
            kind = "unthreaded-request-sees-history"
        elif any(m in used for m in others if m not in used_e):
            kind = "foreign-thread-messages"
        elif sorted(json.dumps(m, sort_keys=True) for m in used) == sorted(json.dumps(m, sort_keys=True) for m in used_e):
            kind = "wrong-order"
        elif used == new and stored:
            kind = "history-missing"
        else:
            kind = "other"
        out.append((f"thread:turn-input:{kind}",
                    f"{case}: messages used for the turn {_content(used)} != stored thread + new messages {_content(used_e)}"))
        return out, model2      # one root cause: what gets stored after a wrong turn input is not judged again
    if obs["messages"] != [fake_reply(used)]:
        out.append(("thread:reply-not-returned", f"{case}: response {ascii(obs['messages'])[:200]} is not the reply generated for this turn"))
    exp_values = sorted(model2.values(), key=lambda x: json.dumps(x, sort_keys=True))
    if obs["store_values"] != exp_values:
        before = sorted(model.values(), key=lambda x: json.dumps(x, sort_keys=True))
        if t == "none":
            kind = "unthreaded-request-changed-store"
        elif obs["store_values"] == before:
            kind = "nothing-stored"
        elif len(obs["store_values"]) != len(exp_values):
            kind = "thread-count"
        else:
            mine = [v for v in obs["store_values"] if v not in [x for k, x in model2.items() if k != t]]
            if len(mine) == 1 and mine[0] == used_e:
                kind = "reply-not-stored"
            elif len(mine) == 1 and mine[0][-1:] == [reply_e] and len(mine[0]) < len(used_e) + 1:
                kind = "history-or-new-messages-dropped"
            elif len(mine) != 1:
                kind = "other-thread-changed"
            else:
                kind = "other"
        out.append((f"thread:stored:{kind}",
                    f"{case}: stored afterwards {[_content(v) for v in obs['store_values']]} != "
                    f"{[_content(v) for v in exp_values]} (thread + new messages + reply; other threads untouched)"))
    return out, model2


def _state_key(data):
    return tuple(sorted(data.items()))


def _model_key(model):
    return tuple(sorted((k, json.dumps(v, sort_keys=True)) for k, v in model.items()))


def _model_from_key(mk):
    return {k: json.loads(v) for k, v in mk}


def b_expand(task):
    """all successors of one state; restores the datastore contents first"""
    state, mk, path, alphabet = task
    W = _W
    if W.mode != "multi":
        W.set_mode("multi")
    model = _model_from_key(mk)
    succ = []
    viols = []
    sample = None
    for req in alphabet:
        W.api.datastore.data = dict(state)
        obs = b_do(req)
        vs, model2 = b_judge(model, req, obs)
        for sig, what in vs:
            viols.append((sig, what, {"part": "B", "sequence": [list(map(_jl, p)) for p in path + (req,)]}))
        succ.append((req, _state_key(W.api.datastore.data), _model_key(model2), bool(vs)))
        if sample is None and req[0] != "none" and model.get(req[0]):
            sample = {"part": "B", "sequence": [list(map(_jl, p)) for p in path + (req,)],
                      "messages_used": _content(obs["used"][0]) if obs.get("used") else None}
    return {"succ": succ, "viols": viols, "path": path, "sample": sample}


def _jl(x):
    return list(x) if isinstance(x, tuple) else x


def run_b_bfs(rep, d, deadline):
    W = _W
    W.set_mode("multi")
    W.fresh_store()
    W.reset_case()
    alphabet = list(B_ALPHABET)
    if rep.seed:
        random.Random(rep.seed).shuffle(alphabet)
    seen = {(): 0}
    frontier = [((), (), ())]
    transitions = 0
    nontrivial = 0
    complete = True
    depth_done = 0
    for depth in range(d):
        tasks = [(s, mk, path, alphabet) for s, mk, path in frontier]
        nxt = []
        if len(tasks) >= 48:
            results = par.pmap(b_expand, tasks, chunksize=max(1, len(tasks) // (par.NPROC * 4)), deadline=deadline)
        else:
            results = map(b_expand, tasks)
        got = 0
        for res in results:
            got += 1
            for sig, what, rp in res["viols"]:
                _report(rep, sig, what, rp)
            if res["sample"] and got % max(1, len(tasks) // 2) == 1:
                rep.sample(res["sample"])
            src_model = None
            for req, st, mk2, bad in res["succ"]:
                transitions += 1
                if req[0] != "none":
                    nontrivial += 1
                if st not in seen and not bad:
                    seen[st] = depth + 1
                    nxt.append((st, mk2, res["path"] + (req,)))
        if got < len(tasks):
            complete = False
            break
        depth_done = depth + 1
        # canonical order so the exploration does not depend on worker scheduling
        nxt.sort(key=lambda x: x[2])
        frontier = nxt
    rep.set("B_depth", d)
    rep.set("B_depth_fully_explored", depth_done)
    rep.add("states", len(seen))
    rep.add("transitions", transitions)
    rep.add("evaluations", transitions)
    rep.set("B_transitions_on_a_thread", nontrivial)
    rep.set("B_states_with_two_threads", sum(1 for s in seen if len(s) >= 2))
    return complete


def b_fresh_sequences(task):
    """run whole sequences from a fresh app state, no state restoration in between"""
    W = _W
    if W.mode != "multi":
        W.set_mode("multi")
    n = 0
    steps = 0
    viols = []
    for seq in task:
        W.fresh_store()
        W.reset_case()
        model = {}
        for i, req in enumerate(seq):
            obs = b_do(req)
            steps += 1
            vs, model = b_judge(model, req, obs)
            for sig, what in vs:
                viols.append((sig, "(fresh-state replay, no restore) " + what,
                              {"part": "B", "sequence": [list(map(_jl, p)) for p in seq[:i + 1]]}))
            if vs:
                break
        n += 1
    return {"n": n, "steps": steps, "viols": viols}


def run_b_fresh(rep, tier, d, deadline):
    full = 2 if tier == "quick" else 3
    stride = 5 if tier == "quick" else 11
    seqs = []
    for ln in range(1, d + 1):
        allseq = list(itertools.product(B_ALPHABET, repeat=ln)) if ln <= 5 else []
        if ln <= full:
            seqs.extend(allseq)
        else:
            seqs.extend(allseq[::stride])
    chunk = max(1, len(seqs) // (par.NPROC * 4))
    tasks = [seqs[i:i + chunk] for i in range(0, len(seqs), chunk)]
    done = 0
    for res in par.pmap(b_fresh_sequences, tasks, chunksize=1, deadline=deadline):
        done += 1
        rep.add("traces_validated_against_impl", res["n"])
        rep.add("B_fresh_replay_requests", res["steps"])
        rep.add("evaluations", res["steps"])
        for sig, what, rp in res["viols"]:
            _report(rep, sig, what, rp)
    rep.set("B_fresh_replay_rule", f"all sequences of length <= {full}, every {stride}th (lexicographic) of each longer length <= {min(d, 5)}")
    return done == len(tasks)



# ------------------------------------------------------------------ part C: config ids over a warm rails cache
# The server keeps one rails instance per id list.  A request must be answered as a server that has never seen
# another request would answer it: same outcome (served / fixed reply) and, when served, an instance built from the
# same configuration.  Directory names in this root collide under a "-" join (a-b vs [a, b]; [a, b-c] vs [a-b, c]).
C_IDS = [("a",), ("b",), ("a-b",), ("a", "b"), ("b", "a"), ("a", "b-c"), ("a-b", "c"), ("a", "zz"), ("a-zz",), ("zz",),
         ("a\x00b",), ('["a", "b"]',), ("('a', 'b')",)]


def c_request(ids):
    """one request on the current server state -> (kind, served_by)"""
    del FakeRails.calls[:]
    del FakeRails.served_by[:]
    del _W.loads[:]
    body = {"messages": USER_MSG}
    if len(ids) == 1:
        body["config_id"] = ids[0]
    else:
        body["config_ids"] = list(ids)
    r = _post(body)
    if r["kind"] == "reply":
        msgs = r["messages"]
        content = msgs[0].get("content") if len(msgs) == 1 and isinstance(msgs[0], dict) else None
        if content == FIXED.format(ids=list(ids)):
            return ("rejected", None)
        if FakeRails.calls and msgs == [fake_reply(FakeRails.calls[-1])]:
            return ("served", tuple(FakeRails.served_by[-1]))
        return ("other-reply:" + ascii(msgs)[:120], None)
    return (r["kind"] + ":" + str(r.get("type") or r.get("status")), None)


def c_task(seqs):
    W = _W
    if W.mode != "multic":
        W.set_mode("multic")
    fresh = {}
    for ids in C_IDS:
        W.reset_case()
        fresh[ids] = c_request(ids)
    viols = []
    n = steps = warm = 0
    for seq in seqs:
        W.reset_case()
        for i, ids in enumerate(seq):
            got = c_request(ids)
            steps += 1
            if i and got == fresh[ids]:
                warm += 1
            if got != fresh[ids]:
                kind = "served-from-another-requests-instance" if got[0] == "served" else "outcome-depends-on-earlier-requests"
                viols.append((f"rails-cache:{kind}",
                              f"after the requests {[list(x) for x in seq[:i]]} the request {list(ids)} is answered {got}; a server that "
                              f"has seen no other request answers {fresh[ids]}",
                              {"part": "C", "sequence": [list(x) for x in seq[:i + 1]]}))
                break
        n += 1
    return {"n": n, "steps": steps, "warm": warm, "viols": viols, "fresh": {ascii(list(k)): v[0] for k, v in fresh.items()}}


def run_c(rep, tier, deadline):
    d = 2 if tier == "quick" else 3
    seqs = [s for ln in range(1, d + 1) for s in itertools.product(C_IDS, repeat=ln)]
    chunk = max(1, len(seqs) // (par.NPROC * 2))
    tasks = [seqs[i:i + chunk] for i in range(0, len(seqs), chunk)]
    done = 0
    seen_sig = {}
    for res in par.pmap(c_task, tasks, chunksize=1, deadline=deadline):
        done += 1
        rep.add("C_sequences", res["n"])
        rep.add("C_requests", res["steps"])
        rep.add("evaluations", res["steps"])
        rep.add("C_requests_on_a_warm_cache_agreeing_with_fresh_server", res["warm"])
        rep.set("C_fresh_outcomes", res["fresh"])
        for sig, what, rp in sorted(res["viols"], key=lambda v: (len(v[2]["sequence"]), json.dumps(v[2]["sequence"]))):
            _report(rep, sig, what, rp)
    rep.set("C_depth", d)
    rep.set("C_id_lists", [list(x) for x in C_IDS])
    return done == len(tasks)


# ------------------------------------------------------------------ part D: threads served by a REAL LLMRails instance
# Parts A-C replace LLMRails by an echoing fake, so what the real generate_async does with the message list it is handed
# (the list the server stores afterwards) is outside their reach.  Here the endpoint builds real LLMRails objects
# (scripted LLM whose answer is a digest of the prompt); every sequence of <= 2 (quick) / 3 (thorough) requests over
# D_ALPHABET; oracle as in part B: messages handed to generate_async = stored thread + new messages, stored afterwards =
# that list + the returned reply, other threads untouched.
D_ALPHABET = [("T1", ("m1",), None), ("T1", ("C", "m1"), None), ("T2", ("m2",), None), ("T1", ("C", "m2"), {"log": {"activated_rails": True}}),
              ("T2", ("m1",), {"rails": {"output": False}}), ("none", ("C", "m1"), None)]
D_ALPHABET_REWRITING = [D_ALPHABET[0], D_ALPHABET[2], D_ALPHABET[1]]
_D_CALLS = []
# configurations served in part D: "real" = plain; "pass" = passthrough mode with an input rail that rewrites the user message (what the
# sensitive-data masking rails do); "mask" = the same rail without passthrough.  What a rail does to the text is the instance's business -
# the thread the server stores is still the messages it handed over plus the reply.
D_CONFIGS = {
    "real": ("", None),
    "pass": ("passthrough: true\nrails:\n  input:\n    flows:\n      - mask user message\n",
             "define subflow mask user message\n  $user_message = \"<masked>\"\n"),
    "mask": ("rails:\n  input:\n    flows:\n      - mask user message\n",
             "define subflow mask user message\n  $user_message = \"<masked>\"\n"),
}


def d_setup():
    from vf.engines.world import EMB_YAML
    for name, (yaml, co) in D_CONFIGS.items():
        p = os.path.join(_W.base, "rootd", name)
        os.makedirs(p, exist_ok=True)
        with open(os.path.join(p, "config.yml"), "w") as f:
            f.write(EMB_YAML + yaml)
        if co:
            with open(os.path.join(p, "rails.co"), "w") as f:
                f.write(co)


def _real_rails_class():
    from nemoguardrails import LLMRails
    from vf.engines.world import ScriptedLLM
    import hashlib

    class RealRails(LLMRails):
        def __init__(self, config=None, verbose=False, **kw):
            llm = ScriptedLLM()
            llm.calls = []
            llm.responder = lambda task, prompt, i: "REPLY-" + hashlib.sha1(str(prompt).encode()).hexdigest()[:8]
            super().__init__(config, llm=llm, verbose=False)

        async def generate_async(self, prompt=None, messages=None, options=None, state=None, streaming_handler=None):
            _D_CALLS.append(copy.deepcopy(messages))
            return await super().generate_async(prompt=prompt, messages=messages, options=options, state=state,
                                                streaming_handler=streaming_handler)

    return RealRails


def d_task(task):
    cfg, seqs = task
    W = _W
    W.set_mode("multid")
    saved = W.api.LLMRails
    W.api.LLMRails = _real_rails_class()
    viols, n, steps = [], 0, 0
    try:
        for seq in seqs:
            W.fresh_store()
            W.reset_case()
            model = {}
            for i, (t, ms, opts) in enumerate(seq):
                body = b_body((t, ms))
                body["config_id"] = cfg
                if opts is not None:
                    body["options"] = copy.deepcopy(opts)
                del _D_CALLS[:]
                r = _post(body)
                steps += 1
                rp = {"part": "D", "config": cfg, "sequence": [[a, list(b), c] for a, b, c in seq[:i + 1]]}
                case = f"real LLMRails instance of configuration {cfg!r}, request {i + 1} of {[(a, list(b), c) for a, b, c in seq[:i + 1]]}"
                if r["kind"] != "reply" or len(r["messages"]) != 1:
                    viols.append((f"thread:real-instance:request-failed:{r.get('type') or r.get('status') or 'reply-shape'}", f"{case}: {ascii(r)[:300]}", rp))
                    break
                reply = r["messages"][0]
                used_e = (list(model.get(t, [])) if t != "none" else []) + _new_messages(ms)
                if len(_D_CALLS) != 1 or _D_CALLS[0] != used_e:
                    viols.append(("thread:real-instance:turn-input", f"{case}: generate_async was handed {ascii(_D_CALLS)[:300]}, expected the stored thread + new messages {ascii(used_e)[:300]}", rp))
                    break
                if t != "none":
                    model[t] = used_e + [reply]
                store = sorted((json.loads(v) for v in W.api.datastore.data.values()), key=lambda x: json.dumps(x, sort_keys=True))
                exp = sorted(model.values(), key=lambda x: json.dumps(x, sort_keys=True))
                if store != exp:
                    mine = [v for v in store if v not in exp]
                    viols.append(("thread:real-instance:stored-thread-is-not-history-plus-new-messages-plus-reply",
                                  f"{case}: stored {ascii(mine)[:400]}; expected threads {ascii(exp)[:400]}", rp))
                    break
            n += 1
    finally:
        W.api.LLMRails = saved
    return {"n": n, "steps": steps, "viols": viols}


def run_d(rep, tier, deadline):
    d = 2 if tier == "quick" else 3
    seqs = [s for ln in range(1, d + 1) for s in itertools.product(D_ALPHABET, repeat=ln)]
    d_setup()
    # the configurations with a rewriting rail: the three plain request forms (quick), the whole alphabet (thorough)
    small = [s for ln in range(1, d + 1) for s in itertools.product(D_ALPHABET_REWRITING, repeat=ln)] if tier == "quick" else seqs
    per_cfg = {cfg: (seqs if cfg == "real" else small) for cfg in D_CONFIGS}
    rep.set("D_sequences_per_configuration", {cfg: len(v) for cfg, v in sorted(per_cfg.items())})
    chunk = max(1, sum(len(v) for v in per_cfg.values()) // (par.NPROC * 2))
    tasks = [(cfg, v[i:i + chunk]) for cfg, v in per_cfg.items() for i in range(0, len(v), chunk)]
    rep.set("D_configurations", sorted(D_CONFIGS))
    done = 0
    for res in par.pmap(d_task, tasks, chunksize=1, deadline=deadline):
        done += 1
        rep.add("D_sequences_on_a_real_instance", res["n"])
        rep.add("D_requests_on_a_real_instance", res["steps"])
        rep.add("evaluations", res["steps"])
        for sig, what, rp in sorted(res["viols"], key=lambda v: (len(v[2]["sequence"]), json.dumps(v[2]["sequence"]))):
            _report(rep, sig, what, rp)
    rep.set("D_depth", d)
    return done == len(tasks)


# ------------------------------------------------------------------ part F: thread ids at the limits of what the API accepts
# Parts B and D use two short ids.  Here the ids are a family of NEAR-EQUAL ids over the whole range of lengths the API accepts
# (16..255 characters): ids that agree in a long prefix and differ in their last character, ids one of which is a proper prefix
# of the other, ids that differ only in case / in trailing white space / in Unicode normal form / by a leading "thread-".  For
# every unordered pair {X, Y} of distinct ids: every sequence of <= 3 requests over {X says m1, Y says m2}, each from a fresh
# store (the sequences that stay on one id are run once per id); oracle of part B (model keyed by the exact id string).
F_LENGTHS = (16, 17, 128, 248, 249, 250, 254, 255)


def _f_ids():
    ids = {}
    fill = "s" * 255
    for ln in F_LENGTHS:
        ids[f"L{ln}a"] = fill[:ln - 1] + "a"
        ids[f"L{ln}b"] = fill[:ln - 1] + "b"
    for ln in (16, 255):
        ids[f"L{ln}A"] = fill[:ln - 1] + "A"                      # differs from L<ln>a in case only
        ids[f"L{ln}a-trailing-space"] = fill[:ln - 2] + "a "       # L<ln-1>a + " "
        ids[f"L{ln}-nfc"] = fill[:ln - 1] + "\u00e9"                # e-acute, composed
        ids[f"L{ln}-nfd"] = fill[:ln - 2] + "e\u0301"               # e-acute, decomposed (same text after normalisation)
    ids["L23-thread-prefixed"] = "thread-" + fill[:15] + "a"       # "thread-" + L16a
    ids["L255-thread-prefixed"] = "thread-" + fill[:247] + "a"     # "thread-" + L248a
    assert len(set(ids.values())) == len(ids) and all(16 <= len(v) <= 255 for v in ids.values())
    return ids


F_IDS = _f_ids()
THREADS.update(F_IDS)


def f_task(pairs):
    W = _W
    if W.mode != "multi":
        W.set_mode("multi")
    viols = []
    n = steps = second = 0
    for x, y in pairs:
        alphabet = [(x, ("m1",)), (y, ("m2",))] if x != y else [(x, ("m1",))]
        for ln in (1, 2, 3):
            for seq in itertools.product(alphabet, repeat=ln):
                if x != y and len({r[0] for r in seq}) < 2:
                    continue            # sequences on one id only: run once per id (the "pair" (x, x)), not once per pair
                W.fresh_store()
                W.reset_case()
                model = {}
                for i, req in enumerate(seq):
                    obs = b_do(req)
                    steps += 1
                    if model and req[0] not in model:
                        second += 1            # first turn of an id while the other id's thread is stored
                    vs, model = b_judge(model, req, obs)
                    for sig, what in vs:
                        viols.append((sig.replace("thread:", "thread:near-equal-ids:", 1),
                                      f"(thread ids {x}={ascii(F_IDS[x]) if len(F_IDS[x]) < 40 else ascii(F_IDS[x][:8]) + '...' + ascii(F_IDS[x][-8:]) + ' (%d chars)' % len(F_IDS[x])}, "
                                      f"{y}={ascii(F_IDS[y]) if len(F_IDS[y]) < 40 else ascii(F_IDS[y][:8]) + '...' + ascii(F_IDS[y][-8:]) + ' (%d chars)' % len(F_IDS[y])}) " + what,
                                      {"part": "B", "sequence": [list(map(_jl, p)) for p in seq[:i + 1]]}))
                    if vs:
                        break
                n += 1
    return {"n": n, "steps": steps, "second": second, "viols": viols}


def run_f(rep, tier, deadline):
    names = sorted(F_IDS)
    pairs = list(itertools.combinations(names, 2)) + [(x, x) for x in names]
    if rep.seed:
        random.Random(rep.seed).shuffle(pairs)
    chunk = max(1, len(pairs) // (par.NPROC * 3))
    tasks = [pairs[i:i + chunk] for i in range(0, len(pairs), chunk)]
    done = 0
    collected = []
    for res in par.pmap(f_task, tasks, chunksize=1, deadline=deadline):
        done += 1
        rep.add("F_sequences_over_a_pair_of_near_equal_thread_ids", res["n"])
        rep.add("traces_validated_against_impl", res["n"])
        rep.add("F_requests", res["steps"])
        rep.add("F_first_turns_of_an_id_next_to_the_other_ids_thread", res["second"])
        rep.add("evaluations", res["steps"])
        collected.extend(res["viols"])
    for sig, what, rp in sorted(collected, key=lambda v: (len(v[2]["sequence"]), json.dumps(v[2]["sequence"]))):
        _report(rep, sig, what, rp)
    rep.set("F_thread_ids", {k: len(v) for k, v in sorted(F_IDS.items())})
    rep.set("F_id_pairs", len(pairs) - len(names))
    return done == len(tasks)


# ------------------------------------------------------------------ part E: the root as configured through the `server` command
# Parts A-D set `app.rails_config_path` themselves.  An operator configures the root with `nemoguardrails server [--config <dir>]
# [--default-config-id <id>]`; "its configured root" is the folder named there (or ./config of the working directory when the
# option is absent).  Here the real command runs (typer CliRunner, uvicorn.run replaced by a recorder), then the app it hands to
# uvicorn is started (start-up hooks run through the TestClient) and is asked for every id of <= 2 tokens (tokens of part A that
# are not RARE_IN_QUICK in the quick tier, all tokens in the thorough tier) as `config_id`, as ['<valid id>', id] and with no id
# at all.  Oracle of part A with the root = realpath of the folder the operator named: a root that is a configuration itself
# (config.yml / config.yaml in it) may only ever load that folder; a root that holds configurations only loads directories below it.
E_TREE = ["root/cfg1", "root/cfg2", "cwdm/config/cfg1", "cwdm/config/cfg2", "cwdm/cfg1", "cwds/config", "cwds/cfg1", "cwds/cfg2",
          "rooty/cfg1", "rooty/cfg2"]     # rooty/cfg1 holds config.yaml instead of config.yml
# (name, working directory, --config argument or None, --default-config-id or None, configured root, is the root a configuration)
E_CLI = [
    ("multi-abs", ".", "@root", None, "root", False),
    ("multi-abs-default-id", ".", "@root", "cfg1", "root", False),
    ("multi-abs-trailing-slash", ".", "@root/", None, "root", False),
    ("multi-rel", ".", "root", None, "root", False),
    ("single-abs", ".", "@root/cfg1", None, "root/cfg1", True),
    ("single-abs-default-id", ".", "@root/cfg1", "cfg1", "root/cfg1", True),
    ("single-abs-default-id-of-sibling", ".", "@root/cfg1", "cfg2", "root/cfg1", True),
    ("single-abs-trailing-slash", ".", "@root/cfg1/", None, "root/cfg1", True),
    ("single-rel", "root", "cfg1", None, "root/cfg1", True),
    ("single-rel-dotted", "root/cfg2", "../cfg1", None, "root/cfg1", True),
    ("single-yaml-abs", ".", "@rooty/cfg1", None, "rooty/cfg1", True),
    ("local-config-folder-multi", "cwdm", None, None, "cwdm/config", False),
    ("local-config-folder-single", "cwds", None, None, "cwds/config", True),
    ("local-config-folder-single-default-id", "cwds", None, "cfg1", "cwds/config", True),
]
_E_APP_DEFAULTS = {}


def e_setup():
    """additional folders of the scratch tree; the command's module imported before the fork"""
    from nemoguardrails import cli  # noqa: F401
    from typer.testing import CliRunner  # noqa: F401
    for d in E_TREE:
        p = os.path.join(_W.base, d)
        os.makedirs(p, exist_ok=True)
        name = "config.yaml" if d == "rooty/cfg1" else "config.yml"
        if not os.path.exists(os.path.join(p, "config.yml")):
            with open(os.path.join(p, name), "w") as f:
                f.write("models: []\ninstructions:\n  - type: general\n    content: \"marker %s\"\n" % d)


def e_start(case):
    """run the real command as a new server process would: -> (ok, detail, server app handed to uvicorn)"""
    name, cwd, config, default_id, _root, _single = case
    api = _W.api
    import uvicorn
    from typer.testing import CliRunner
    from nemoguardrails import cli
    # what a new process starts from
    api.app.rails_config_path = _W._saved["app"]["rails_config_path"]
    api.app.single_config_mode = False
    api.app.single_config_id = None
    api.app.default_config_id = None
    args = ["server", "--disable-chat-ui"]
    if config is not None:
        args += ["--config", os.path.join(_W.base, config[1:]) if config.startswith("@") else config]
    if default_id is not None:
        args += ["--default-config-id", default_id]
    handed = []
    saved_run, saved_cwd = uvicorn.run, os.getcwd()
    uvicorn.run = lambda a, **kw: handed.append(a)
    os.chdir(os.path.join(_W.base, cwd))
    try:
        r = CliRunner().invoke(cli.app, args)
    finally:
        uvicorn.run = saved_run
    # the working directory stays: a relative root is relative to it for the life of the server process
    if r.exit_code != 0 or len(handed) != 1:
        os.chdir(saved_cwd)
        return False, f"exit code {r.exit_code}, exception {r.exception!r}, output {r.output[-200:]!r}, apps handed to uvicorn.run: {len(handed)}", None, saved_cwd
    return True, args, handed[0], saved_cwd


def e_request(client, form, ids, eff_ids):
    """one request -> observation like a_eval's; eff_ids = the ids the server has to act on (default id for a request without id)"""
    W = _W
    W.reset_case()
    body = {"messages": USER_MSG}
    if form == "single":
        body["config_id"] = ids[0]
    elif form != "absent":
        body["config_ids"] = list(ids)
    try:
        with warnings.catch_warnings():
            warnings.simplefilter("ignore")
            r = client.post("/v1/chat/completions", content=json.dumps(body), headers={"content-type": "application/json"})
    except Exception as e:
        obs = {"kind": "exc", "type": type(e).__name__, "where": _where(e), "msg": str(e)[:200]}
    else:
        if r.status_code != 200:
            obs = {"kind": "status", "status": r.status_code, "text": r.text[:200]}
        else:
            try:
                msgs = r.json()["messages"]
            except Exception:
                msgs = None
            content = msgs[0].get("content") if msgs and len(msgs) == 1 and isinstance(msgs[0], dict) else None
            if content == FIXED.format(ids=list(eff_ids)):
                obs = {"kind": "rejected"}
            elif msgs and FakeRails.calls and msgs == [fake_reply(FakeRails.calls[-1])]:
                obs = {"kind": "served", "served_by": list(FakeRails.served_by[-1])}
            else:
                obs = {"kind": "other-reply", "content": ascii(r.text)[:200]}
    obs["loads"] = list(W.loads)
    obs["constructed"] = len(FakeRails.constructed)
    return obs


def _e_where(rp, root):
    if os.path.dirname(rp) == os.path.dirname(root):
        return "sibling-of-the-configured-root"
    if _inside(root, rp):
        return "ancestor-of-the-configured-root"
    if rp.startswith(root):
        return "prefix-sharing-sibling"
    return "elsewhere"


def e_judge(case, form, ids, eff_ids, obs):
    name, cwd, config, default_id, root_rel, single = case
    root = os.path.realpath(os.path.join(_W.base, root_rel))
    kindname = "single" if single else "multi"
    what0 = (f"`nemoguardrails server{'' if config is None else ' --config ' + (config.replace('@', '<base>/'))}"
             f"{'' if default_id is None else ' --default-config-id ' + default_id}` run in <base>/{cwd} (configured root <base>/{root_rel}, "
             f"{'a configuration itself' if single else 'a folder of configurations'}), request {form} ids={ascii(list(ids))}")
    out = []
    for p in obs["loads"]:
        rp = _realpath(os.path.join(os.getcwd(), p))
        if not _inside(rp, root):
            out.append((f"cli-server:load-outside-configured-root:{kindname}:{_e_where(rp, root)}",
                        f"{what0}: RailsConfig.from_path({ascii(p)}) resolves to {ascii(rp)}, which is not inside the configured root (outcome: {obs['kind']})"))
            break
        if single and rp != root:
            out.append((f"cli-server:load-of-a-folder-below-a-single-config-root",
                        f"{what0}: RailsConfig.from_path({ascii(p)}) resolves to {ascii(rp)}; the configured root is one configuration (outcome: {obs['kind']})"))
            break
        if not single and rp == root:
            out.append((f"cli-server:load-of-the-root-itself:{kindname}", f"{what0}: RailsConfig.from_path({ascii(p)}) loads the root folder itself (outcome: {obs['kind']})"))
            break
        if os.path.isfile(rp):
            out.append((f"cli-server:load-of-a-file:{kindname}", f"{what0}: RailsConfig.from_path({ascii(p)}) loads a file (outcome: {obs['kind']})"))
            break
    k = obs["kind"]
    no_id = len(eff_ids) == 0
    if k == "exc":
        if not (no_id and obs["type"] == "GuardrailsConfigurationError") or NO_ID_ERROR_IS_VIOLATION:
            out.append((f"cli-server:unhandled:{obs['type']}:{obs['where']}", f"{what0}: unhandled {obs['type']} ({obs['msg']}) raised in {obs['where']}"))
    elif k == "status":
        out.append((f"cli-server:http-status:{obs['status']}", f"{what0}: HTTP {obs['status']} {obs['text']}"))
    elif k == "other-reply":
        out.append(("cli-server:unexpected-reply", f"{what0}: neither the fixed reply nor a served reply: {obs['content']}"))
    elif k == "served":
        need = 1 if single else len(eff_ids)
        if len(obs["loads"]) != need or obs["constructed"] != 1:
            out.append((f"cli-server:served-without-recorded-load:{kindname}", f"{what0}: served although {len(obs['loads'])} load(s) were recorded (expected {need})"))
    root_name = os.path.basename(root)
    valid = list(eff_ids) == [root_name] if single else (len(eff_ids) > 0 and all(i in ("cfg1", "cfg2") for i in eff_ids))
    if valid and k == "rejected":
        out.append((f"cli-server:valid-id-not-served:{kindname}", f"{what0}: the configuration the operator configured was refused"))
    if valid and k == "served" and len(eff_ids) == 1:
        exp = ["marker " + (root_rel if single else root_rel + "/" + i) for i in eff_ids]
        if sorted(obs.get("served_by") or []) != sorted(exp):
            out.append((f"cli-server:served-by-another-configuration:{kindname}", f"{what0}: served by an instance built from {obs.get('served_by')}, expected {exp}"))
    return out


def e_task(task):
    case, tuples = task
    name, cwd, config, default_id, root_rel, single = case
    W = _W
    counts = {"E_command_runs": 1}
    viols = []
    sample = None

    def bump(k, n=1):
        counts[k] = counts.get(k, 0) + n

    ok, detail, server_app, saved_cwd = e_start(case)
    if not ok:
        return {"counts": counts, "viols": [("cli-server:command-failed", f"case {name}: {detail}", {"part": "E", "cli": name, "form": "-", "ids_tokens": []})], "sample": None}
    try:
        from fastapi.testclient import TestClient
        valid_id = os.path.basename(root_rel) if single else "cfg1"
        with TestClient(server_app) as client:          # runs the start-up hooks of the app handed to uvicorn
            api = W.api
            bump("E_servers_started")
            if bool(api.app.single_config_mode) == bool(single):
                bump("E_servers_in_the_mode_the_configured_root_calls_for")
            reqs = [("absent", (), None)]
            for tup in tuples:
                s = W.render(tup)
                reqs.append(("single", (s,), tup))
                reqs.append(("list2-second", (valid_id, s), tup))
            for form, ids, tup in reqs:
                eff = ids
                if form == "absent" or (form == "single" and ids[0] == ""):
                    eff = (default_id,) if default_id is not None else ()
                obs = e_request(client, form, ids, eff)
                bump("evaluations")
                bump("E_requests")
                bump(f"E_{'single' if single else 'multi'}_{obs['kind']}")
                bump("E_from_path_calls", len(obs["loads"]))
                if obs["loads"]:
                    bump("E_requests_reaching_a_load")
                for sig, what in e_judge(case, form, ids, eff, obs):
                    bump("E_violating_cases")
                    viols.append((sig, what, {"part": "E", "cli": name, "form": form,
                                              "ids_tokens": [TOKENS[i][0] for i in tup] if tup is not None else [], "observed": obs}))
                if sample is None and obs["loads"] and tup is not None:
                    sample = {"part": "E", "cli": name, "command": detail[:1] + [a.replace(W.base, "<base>") for a in detail[1:]], "form": form,
                              "ids": [ascii(i) for i in ids], "outcome": obs["kind"], "from_path": [p.replace(W.base, "<base>") for p in obs["loads"]]}
    finally:
        os.chdir(saved_cwd)
    return {"counts": counts, "viols": viols, "sample": sample}


def e_tuples(tier):
    seen, out = set(), []
    idx = [i for i in range(len(TOKENS)) if tier != "quick" or TOKENS[i][0] not in RARE_IN_QUICK]
    for ln in (0, 1, 2):
        for tup in itertools.product(idx, repeat=ln):
            s = _W.render(tup)
            if s not in seen:
                seen.add(s)
                out.append(tup)
    return out


def run_e(rep, tier, deadline):
    tuples = e_tuples(tier)
    half = (len(tuples) + 1) // 2
    tasks = [(case, part) for case in E_CLI for part in (tuples[:half], tuples[half:])]
    if rep.seed:
        random.Random(rep.seed).shuffle(tasks)
    done = 0
    collected = []
    samples = []
    for res in par.pmap(e_task, tasks, chunksize=1, deadline=deadline):
        done += 1
        rep.merge_counts(res["counts"])
        collected.extend(res["viols"])
        if res["sample"]:
            samples.append(res["sample"])
    order = {c[0]: i for i, c in enumerate(E_CLI)}
    if samples:
        lst = rep.cov.setdefault("samples", [])
        if len(lst) >= 6:
            lst.pop()
        rep.sample(min(samples, key=lambda x: (order[x["cli"]] != order["single-rel"], order[x["cli"]], json.dumps(x["ids"]))))
    collected.sort(key=lambda v: (len(v[2]["ids_tokens"]), order.get(v[2]["cli"], 0), v[2]["form"] != "single", json.dumps(v[2]["ids_tokens"])))
    for sig, what, rp in collected:
        _report(rep, sig, what, rp)
    rep.set("E_command_lines", [c[0] for c in E_CLI])
    rep.set("E_distinct_ids", len(tuples))
    return done == len(tasks)


# ------------------------------------------------------------------ entry points
def run(rep, tier):
    global _W
    _reported.clear()
    t0 = time.time()
    budget = 50 if tier == "quick" else 17 * 60
    _W = World()
    try:
        rep.assumptions += [
            "POSIX file system; scratch tree root/{cfg1,cfg2}, siblings other/cfg1 and rootx/cfg1 (name extends 'root', as 'root2' would); "
            "no symlinks inside the root (a link placed there by the operator is the operator's choice, not a request's)",
            "LLMRails inside api.py replaced by an echoing fake (no LLM / embedding model); RailsConfig.from_path is the real "
            "one, wrapped by a recorder; rails cache cleared before every part-A case so caching cannot hide a load",
            "single-/multi-config mode is derived by the server's own startup_event for each root",
            "a request carrying no id at all (config_id absent/'' or config_ids=[] and no server default) is answered by the "
            "deliberate GuardrailsConfigurationError raise; it is counted (A_no_id_*), not judged",
            "part C: root with the directories a, b, c, a-b, b-c; every sequence of <= 2 (quick) / 3 (thorough) requests over C_id_lists with the "
            "rails cache kept between the requests of a sequence; oracle = the answer of a server that has seen no other request",
            "part D: the endpoint builds REAL LLMRails objects (scripted LLM, fake embedding engine) for the configuration rootd/real; every sequence of <= 2 (quick) / 3 (thorough) "
            "requests over D_ALPHABET (threads T1/T2/none, context, per-request options); oracle of part B on the messages handed to generate_async and on the store",
            "part E: the real `nemoguardrails server` command (typer CliRunner; uvicorn.run replaced by a recorder; app attributes reset to the module's defaults before each run, as in a new process), "
            "then the start-up hooks of the app handed to uvicorn; scratch folders E_TREE; the configured root is the folder named by --config (or ./config of the working directory); LLMRails fake as in part A",
            "part F: thread ids of 16..255 characters (the lengths the API accepts) that are near-equal: common long prefix, differing last character / case / trailing space / Unicode normal form / leading 'thread-'; "
            "every unordered pair, every sequence of <= 3 requests over (X says m1, Y says m2), each from a fresh store; oracle of part B",
            "part B: MemoryStore whose set() yields to the event loop for 2 ms before it writes (write latency); thread ids T1/T2 (T1 is a prefix of T2), `context` on one request form, one streamed request form (`stream: true`, the fake instance pushes the reply in two chunks); store compared by "
            "content (key naming is free)",
        ]
        secs = {"setup": round(time.time() - t0, 1)}

        def timed(name, fn, *a):
            t1 = time.time()
            r = fn(*a)
            secs[name] = round(time.time() - t1, 1)
            return r

        a_deadline = t0 + budget * 0.75
        a_full = timed("A", run_a, rep, tier, a_deadline)
        d = 4 if tier == "quick" else 6
        b_full = timed("B_bfs", run_b_bfs, rep, d, t0 + budget * 0.9)
        f_full = timed("B_fresh", run_b_fresh, rep, tier, d, t0 + budget)
        c_full = timed("C", run_c, rep, tier, t0 + budget * 1.2)
        c_full = timed("D", run_d, rep, tier, max(t0 + budget * 1.4, time.time() + 25)) and c_full
        e_setup()
        c_full = timed("E", run_e, rep, tier, max(t0 + budget * 1.5, time.time() + 25)) and c_full
        c_full = timed("F", run_f, rep, tier, max(t0 + budget * 1.6, time.time() + 25)) and c_full
        rep.set("wall_seconds_per_part", secs)
        la = rep.cov.get("A_ids_load_attempted_multi", 0) + rep.cov.get("A_ids_load_attempted_single", 0)
        eg = rep.cov.get("A_ids_escaping_and_guarded_multi", 0) + rep.cov.get("A_ids_escaping_and_guarded_single", 0)
        rep.set("distinct_nontrivial", la + eg + rep.cov.get("B_transitions_on_a_thread", 0) + rep.cov.get("E_requests_reaching_a_load", 0)
                + rep.cov.get("F_first_turns_of_an_id_next_to_the_other_ids_thread", 0))
        rep.set("rule",
                "A: every distinct string of <=k tokens (A_token_set) x {multi, single}-config mode, each as config_id, [id], "
                "['cfg1', id], [id, 'cfg2'] over HTTP and through _get_rails directly. An (id, mode) pair is non-trivial when "
                "the id reached RailsConfig.from_path (A_ids_load_attempted_*: the confinement of a real load was judged) or "
                "when root/<id> would resolve outside the root and a guard refused it before any load "
                "(A_ids_escaping_and_guarded_*); ids with separators that stay inside the root are counted only in evaluations. "
                "B: BFS over request sequences, state = datastore contents; a transition is non-trivial when it carries a "
                "thread_id (B_transitions_on_a_thread). E: the root configured by the real `server` command (E_command_lines) x every id of <= 2 tokens as config_id and as "
                "['<valid id>', id]; non-trivial = the request reached RailsConfig.from_path (E_requests_reaching_a_load). F: every pair of near-equal thread ids "
                "(F_thread_ids) x every sequence of <= 3 requests over the pair; non-trivial = the first turn of an id while the other id's thread is stored. "
                "distinct_nontrivial is the sum of the five.")
        rep.set("exhaustive", bool(a_full and b_full and f_full and c_full))
        if not (a_full and b_full and f_full and c_full):
            rep.set("cap_hit", f"time budget {budget}s: part A tasks {rep.cov.get('A_tasks_done')}/{rep.cov.get('A_tasks_planned')}, "
                               f"part B depth fully explored {rep.cov.get('B_depth_fully_explored')}/{d}, fresh replays complete={f_full}, parts C-F complete={c_full}")
    finally:
        _W.close()
        _W = None


def replay(rp):
    global _W
    _W = World()
    try:
        if rp.get("part") == "A":
            tok = {n: i for i, (n, _v) in enumerate(TOKENS)}
            ids = tuple(_W.render(tuple(tok[n] for n in names)) for names in rp["ids_tokens"])
            mode, channel, form = rp["mode"], rp["channel"], rp["form"]
            print(f"root = {_W.modes[mode][0]}  (mode {mode})")
            print(f"case: {channel}/{form} ids={ascii(list(ids))}")
            obs = a_eval(mode, channel, form, ids)
            print("expected: every RailsConfig.from_path argument under the root, and either a served reply or\n"
                  "          " + ascii(FIXED.format(ids=list(ids))))
            print("observed:", ascii(obs))
            for sig, what in a_judge(mode, channel, form, ids, obs):
                print("  ->", sig, ":", what)
        elif rp.get("part") == "C":
            res = c_task([[tuple(x) for x in rp["sequence"]]])
            print("sequence of id lists (rails cache kept between them):", rp["sequence"])
            print("answers of a server that has seen no other request:", res["fresh"])
            for sig, what, _rp in res["viols"]:
                print("  ->", sig, ":", what)
            if not res["viols"]:
                print("observed: every request answered as by a fresh server")
        elif rp.get("part") == "D":
            d_setup()
            res = d_task((rp.get("config", "real"), [[(a, tuple(b), c) for a, b, c in rp["sequence"]]]))
            print("configuration:", rp.get("config", "real"), " sequence (thread, new messages, options):", rp["sequence"])
            print("expected: generate_async is handed stored thread + new messages; stored afterwards = that list + the reply")
            for sig, what, _rp in res["viols"]:
                print("  ->", sig, ":", what)
            if not res["viols"]:
                print("observed: as expected")
        elif rp.get("part") == "E":
            e_setup()
            case = [c for c in E_CLI if c[0] == rp["cli"]][0]
            tok = {n: i for i, (n, _v) in enumerate(TOKENS)}
            s = _W.render(tuple(tok[n] for n in rp["ids_tokens"]))
            ok, detail, server_app, saved_cwd = e_start(case)
            print("command:", detail, "run in", os.getcwd() if ok else saved_cwd)
            if ok:
                try:
                    from fastapi.testclient import TestClient
                    single, default_id = case[5], case[3]
                    valid_id = os.path.basename(case[4]) if single else "cfg1"
                    form = rp["form"]
                    ids = () if form == "absent" else (s,) if form == "single" else (valid_id, s)
                    eff = ((default_id,) if default_id is not None else ()) if form == "absent" or (form == "single" and s == "") else ids
                    with TestClient(server_app) as client:
                        print(f"after start-up: rails_config_path={_W.api.app.rails_config_path!r} single_config_mode={_W.api.app.single_config_mode} "
                              f"single_config_id={_W.api.app.single_config_id!r} default_config_id={_W.api.app.default_config_id!r}")
                        obs = e_request(client, form, ids, eff)
                    print(f"request {form} ids={ascii(list(ids))}")
                    print("expected: every RailsConfig.from_path argument inside the configured root", os.path.join(_W.base, case[4]),
                          "(that folder only, when it is a configuration itself), else", ascii(FIXED.format(ids=list(eff))))
                    print("observed:", ascii(obs))
                    for sig, what in e_judge(case, form, ids, eff, obs):
                        print("  ->", sig, ":", what)
                finally:
                    os.chdir(saved_cwd)
        else:
            seq = [(t, tuple(ms)) for t, ms in rp["sequence"]]
            _W.set_mode("multi")
            _W.fresh_store()
            _W.reset_case()
            model = {}
            for req in seq:
                used_e, reply_e, _m2 = b_expect(model, req)
                obs = b_do(req)
                print(f"request thread={req[0]} new={list(req[1])}")
                print("  expected used :", _content(used_e))
                print("  observed used :", [_content(u) for u in obs.get("used", [])], obs["kind"],
                      obs.get("type") or obs.get("status") or "")
                vs, model = b_judge(model, req, obs)
                print("  expected store:", sorted(_content(v) for v in model.values()))
                print("  observed store:", sorted(_content(v) for v in obs["store_values"]), "keys", obs["store_keys"])
                for sig, what in vs:
                    print("  ->", sig, ":", what)
        print("what:", rp.get("what"))
    finally:
        _W.close()
        _W = None
    return 0
