"""Shared world templates + turn driver for the E3 properties (C01, C02, C03, C16, C17, C15-seq)."""
from __future__ import annotations

import hashlib
import itertools

from vf.engines.world import World

IN_RAILS = ["in1", "in2", "in3"]
OUT_RAILS = ["out1", "out2", "out3"]


def v1_rail(name, kind):
    var = "$user_message" if kind == "input" else "$bot_message"
    exc = "InputRailException" if kind == "input" else "OutputRailException"
    return f"""
define bot refuse {name}
  "REFUSED-{name}"

define flow {name}
  $r = execute verif_rail(rail="{name}", text={var})
  if not $r
    if $config.enable_rails_exceptions
      create event {exc}(message="BLOCKED-{name}")
    else
      bot refuse {name}
    stop
  if $r != True
    {var} = $r
"""


V1_DIALOG = """
define user greet
  "hello"
  "hi"

define user ask
  "what can you do"
  "help me"

define bot greet back
  "PREDEF-greet-back"

define flow greet
  user greet
  bot greet back

define flow lookup
  user request lookup
  $res = execute verif_lookup(q=$user_message)
  bot report lookup

define user request lookup
  "look it up"

define user ask var
  "tell me the value"

define flow answer from variable
  user ask var
  # Generate a short answer for the user.
  $answer = ...
  bot $answer
"""


def v1_world(in_order=(), out_order=(), dialog=False, exceptions=False, extra_yaml="", extra_colang="", param_rails=False):
    # only configured rails are defined: an unconfigured `define flow x` would be an ordinary dialog flow
    prails = qrails = ()
    if param_rails:
        # ONE rail flow configured several times with different parameters: the library's
        # `content safety check input $model=<m>` (the only parameterised rail names the config validation accepts);
        # its action is replaced by a stub that is called with rail=<m> (allow / reject only)
        prails = tuple(in_order)
        qrails = tuple(out_order) if param_rails == "both" else ()
        colang = "" if qrails else "".join(v1_rail(r, "output") for r in out_order)
        in_order = tuple(f"content safety check input $model={r}" for r in in_order)
        if qrails:
            out_order = tuple(f"content safety check output $model={r}" for r in out_order)
    else:
        colang = "".join(v1_rail(r, "input") for r in in_order) + "".join(v1_rail(r, "output") for r in out_order)
    if dialog:
        colang += V1_DIALOG
    colang += extra_colang
    yaml = "rails:\n"
    if in_order:
        yaml += "  input:\n    flows: [" + ", ".join(in_order) + "]\n"
    if out_order:
        yaml += "  output:\n    flows: [" + ", ".join(out_order) + "]\n"
    if not in_order and not out_order:
        yaml += "  dialog:\n    single_call:\n      enabled: False\n"
    if exceptions:
        yaml += "enable_rails_exceptions: True\n"
    yaml += extra_yaml
    w = World(colang, yaml)
    if prails:
        async def content_safety_check_input(context=None):
            ok = w._rail_sync((context or {}).get("model"), (context or {}).get("user_message"))
            return {"allowed": ok is not False, "policy_violations": []}

        w.rails.register_action(content_safety_check_input, name="content_safety_check_input")

        async def content_safety_check_output(context=None):
            ok = w._rail_sync((context or {}).get("model"), (context or {}).get("bot_message"))
            return {"allowed": ok is not False, "policy_violations": []}

        w.rails.register_action(content_safety_check_output, name="content_safety_check_output")
    return w


def digest(s):
    return hashlib.sha1(s.encode("utf-8", "surrogatepass")).hexdigest()[:6]


class Turn:
    """Observation of one generate call."""

    def __init__(self, reply, exc, llm_calls, actions):
        self.reply, self.exc, self.llm_calls, self.actions = reply, exc, llm_calls, actions

    @property
    def text(self):
        if self.reply is None:
            return None
        r = self.reply
        if hasattr(r, "response"):
            r = r.response
            if isinstance(r, list):
                r = r[-1] if r else {"role": "assistant", "content": ""}
        if isinstance(r, dict):
            c = r.get("content")
            if r.get("role") == "exception" and isinstance(c, dict):
                return "EXC:" + str(c.get("message"))
            return c
        return r


def run_turn(world: World, messages, verdicts, llm_fn, faults=(), fault_kind="raise", options=None, state=None):
    """One real LLMRails.generate_async call with the scripted environment; a global sequence
    number orders LLM calls and action invocations."""
    world.verdicts = dict(verdicts)
    world.llm_fn = llm_fn
    world.faults = set(faults)
    world.fault_kind = fault_kind
    m = world.mark()
    seq = {"n": 0}
    # sequence numbers: patch the two logs by wrapping list append (cheap, per turn)
    base_llm, base_act = len(world.llm.calls), len(world.action_log)
    kw = {"messages": list(messages)}
    if options is not None:
        kw["options"] = options
    if state is not None:
        kw["state"] = state
    reply, exc = world.generate(**kw)
    calls, acts = world.since(m)
    return Turn(reply, exc, calls, acts)


# ----------------------------------------------------------------------------- Colang 2.x worlds
def v2_rail(name, kind, shape="flag"):
    exc = "InputRailException" if kind == "input" else "OutputRailException"
    # shape "threshold": the rail compares its action's result with a threshold (the shape of `self check facts`:
    # `if $accuracy < 0.5`); True counts as 1, False as 0
    cond = "not $ok" if shape == "flag" else "$ok < 0.5"
    return f"""
flow {name} $t
  $ok = await VerifRailAction(rail="{name}", text=$t)
  if {cond}
    if $system.config.enable_rails_exceptions
      send {exc}(message="BLOCKED-{name}")
    else
      bot say "REFUSED-{name}"
    abort
"""


V2_MAIN_NODIALOG = """
flow main
  activate handling

flow handling
  global $user_message
  user said something
  $ans = await VerifLookupAction(q=$user_message)
  $text = ..."Answer the user: {$user_message}"
  bot say $text
"""

V2_MAIN_DIALOG = """
flow main
  activate greeting
  activate asking

flow user expressed greeting
  user said "hello"

flow greeting
  user expressed greeting
  bot say "PREDEF-greet-back"

flow asking
  global $user_message
  user said "ask"
  $ans = await VerifLookupAction(q=$user_message)
  $text = ..."Answer the user: {$user_message}"
  bot say $text
"""


V2_MAIN_LLM = """
flow main
  activate llm continuation
"""


LIB_REFUSAL = "I'm sorry, I can't respond to that."
LIB_EXC = {"in1": "Input not allowed. The input was blocked by the 'self check input' flow.",
           "out1": "Output not allowed. The output was blocked by the 'self check output' flow."}


def v2_refusal(rail, library=False):
    return LIB_REFUSAL if library else f"REFUSED-{rail}"


def v2_exc_message(rail, library=False):
    return LIB_EXC[rail] if library else f"BLOCKED-{rail}"


def v2_world(in_order=(), out_order=(), dialog=False, exceptions=False, extra_colang="", main=None, library=False, shape="flag"):
    """library=True: the rails are the SHIPPED flows `self check input` / `self check output` (rails in1 / out1); only
    their actions are replaced by stubs that follow the verdict script"""
    colang = "import core\nimport guardrails\n" + ("import llm\n" if dialog == "llm" else "")
    if library == "jailbreak":
        # input rail = the shipped `jailbreak detection heuristics` flow (a rail whose action answers "is it bad?");
        # output rails are the stub rails
        assert tuple(in_order) == ("in1",)
        colang += "import nemoguardrails.library.jailbreak_detection\n"
        colang += "".join(v2_rail(r, "output") for r in OUT_RAILS)
        colang += "\nflow input rails $input_text\n  jailbreak detection heuristics\n"
        if out_order:
            colang += "\nflow output rails $output_text\n" + "".join(f"  {r} $output_text\n" for r in out_order)
    elif library:
        assert set(in_order) <= {"in1"} and set(out_order) <= {"out1"}
        colang += "import nemoguardrails.library.self_check.input_check\nimport nemoguardrails.library.self_check.output_check\n"
        if in_order:
            colang += "\nflow input rails $input_text\n  self check input\n"
        if out_order:
            colang += "\nflow output rails $output_text\n  self check output\n"
    else:
        colang += "".join(v2_rail(r, "input", shape) for r in IN_RAILS) + "".join(v2_rail(r, "output", shape) for r in OUT_RAILS)
        if in_order:
            colang += "\nflow input rails $input_text\n" + "".join(f"  {r} $input_text\n" for r in in_order)
        if out_order:
            colang += "\nflow output rails $output_text\n" + "".join(f"  {r} $output_text\n" for r in out_order)
    colang += main if main is not None else (V2_MAIN_LLM if dialog == "llm" else (V2_MAIN_DIALOG if dialog else V2_MAIN_NODIALOG))
    colang += extra_colang
    yaml = 'colang_version: "2.x"\n'
    if exceptions:
        yaml += "enable_rails_exceptions: True\n"
    if library:
        # the import path of the shipped rails is resolved relative to the directory that holds the package
        import os
        import nemoguardrails
        cwd = os.getcwd()
        os.chdir(os.path.dirname(os.path.dirname(os.path.abspath(nemoguardrails.__file__))))
        try:
            w = World(colang, yaml)
        finally:
            os.chdir(cwd)
    else:
        w = World(colang, yaml)
    w.rails.register_action(w._rail_action, name="VerifRailAction")
    w.rails.register_action(w._dialog_action, name="VerifLookupAction")
    if library:
        async def self_check_input(context=None):
            r = w._rail_sync("in1", (context or {}).get("user_message"))
            return None if r is None else (r is not False)     # (an injected `None` result stays None)

        async def self_check_output(context=None):
            r = w._rail_sync("out1", (context or {}).get("bot_message"))
            return None if r is None else (r is not False)

        async def jailbreak_heuristics(context=None):
            return w._rail_sync("in1", (context or {}).get("user_message")) is False     # True = jailbreak attempt

        w.rails.register_action(self_check_input, name="SelfCheckInputAction")
        w.rails.register_action(self_check_output, name="SelfCheckOutputAction")
        w.rails.register_action(jailbreak_heuristics, name="JailbreakDetectionHeuristicsAction")
    return w
