"""C13 part L: layout edits that must not change the parsed flows.

Position rules (which edits are "meaningless layout by the language definition"):

Colang 2.x (lark grammar + PythonIndenter; scanner `scan_v2`)
  * a position inside a triple-quoted string is string content -> never edited;
  * a position inside an open ( [ {  is never edited and such continuation lines are not
    re-indented: the indenter ignores their layout, but expression elements keep the raw
    source slice (`$d = {"a": 1,\n   "b": 2}`), so their text is not position-free;
  * `# c` is appended only to lines that already carry code or a comment.  On an empty line
    it would create a *full-line* comment, which the 2.x grammar treats as a statement
    (`stmt: comment _NEWLINE`, indentation-sensitive) - not an end-of-line comment;
  * indentation scaling multiplies the leading blanks of every other line; files with a tab
    in some leading whitespace are not scaled (tab stops make k*width != width of k copies).

Colang 1.0 (`get_numbered_lines`; scanner `scan_v1`)
  * interior and closing lines of a multi-line "..." string and of a \"\"\" block are never
    edited or re-indented, nor is anything appended to the line that opens such a string;
  * a line joined to its predecessor by a trailing `\\` is part of one logical line: no blank line is
    inserted before it, and nothing is appended after a `\\`; a line joined by a trailing ` or` (an operator that
    announces the next line) may be preceded by blank lines like any other line;
  * no comments are added (comments can carry meaning in 1.0);
  * only blanks count as indentation in 1.0 (a tab is text), files with tabs in leading
    whitespace are not scaled;
  * edit kind `strtrail`: blanks appended to the opening line or to an interior line of a multi-line
    "..." string or \"\"\" block.  These lines are excluded from `trail`/`tab` above (conservatively:
    "inside the quotes"), but in Colang 1.0 they are not string content either: `get_numbered_lines`
    strips every physical line of a multi-line string before joining them, so blanks at the end of a
    physical line can never reach the string.  They are therefore trailing whitespace in the sense of
    the property, and the file must parse to the same flows.

Colang 2.x comment payloads (`comment[<slug>]`, c13_blocks.COMMENT_PAYLOADS): the same positions as
`comment`, another comment text; applied to the seeds named by c13_blocks.takes_payloads.
"""
from __future__ import annotations

import dataclasses
import enum
import json
import traceback

SKIP_KEYS = ("_source", "_source_mapping", "source_code")

KEYWORDS = {
    "flow", "define", "match", "send", "await", "start", "stop", "activate", "deactivate", "if", "elif",
    "else", "while", "when", "or", "and", "return", "abort", "break", "continue", "pass", "log", "print",
    "priority", "global", "import", "user", "bot", "execute", "set", "do", "event", "meta", "stop", "done",
}


# ------------------------------------------------------------------ oracle: flows modulo positions
def norm(x):
    if dataclasses.is_dataclass(x) and not isinstance(x, type):
        d = {"__cls__": type(x).__name__}
        for k, v in vars(x).items():
            if k not in SKIP_KEYS:
                d[k] = norm(v)
        return d
    if isinstance(x, enum.Enum):
        return f"{type(x).__name__}.{x.name}"
    if isinstance(x, dict):
        return {str(k): norm(v) for k, v in x.items() if k not in SKIP_KEYS}
    if isinstance(x, (list, tuple)):
        return [norm(v) for v in x]
    if isinstance(x, (str, int, float, bool)) or x is None:
        return x
    return repr(x)


def flows_key(parsed):
    return json.dumps(norm(parsed.get("flows", [])), sort_keys=True)


def parse(name, text, ver):
    from nemoguardrails.colang import parse_colang_file

    return parse_colang_file(name, content=text, version=ver)


# ------------------------------------------------------------------ scanners
def scan_v2(text):
    """Per physical line: (starts_in_long_string, depth_at_start, ends_in_long_string,
    depth_at_end, has_text_outside_long_string)."""
    lines = text.split("\n")
    info = []
    state = None
    depth = 0
    for ln in lines:
        s_long, s_depth = state is not None, depth
        outside = False
        i, n = 0, len(ln)
        while i < n:
            ch = ln[i]
            if state:
                if ch == "\\":
                    i += 2
                elif ln.startswith(state, i):
                    state = None
                    i += 3
                    outside = True
                else:
                    i += 1
                continue
            if ch == "#":
                outside = True
                break
            if ln.startswith('"""', i) or ln.startswith("'''", i):
                state = ln[i : i + 3]
                outside = True
                i += 3
                continue
            if ch in "\"'":
                outside = True
                i += 1
                while i < n and ln[i] != ch:
                    i += 2 if ln[i] == "\\" else 1
                i += 1
                continue
            if ch in "([{":
                depth += 1
            elif ch in ")]}":
                depth = max(0, depth - 1)
            if not ch.isspace():
                outside = True
            i += 1
        info.append((s_long, s_depth, state is not None, depth, outside))
    return lines, info


def _strip_eol_comment(raw):
    """Text before the first # that is outside double quotes (1.0 rule)."""
    q = False
    for i, ch in enumerate(raw):
        if ch == '"':
            q = not q
        elif ch == "#" and not q:
            return raw[:i].strip()
    return raw


def scan_v1(text):
    """Per physical line: (inside, opens, cont, backslash)
    inside: interior/closing line of a multi-line string or of a triple-quote block
    opens:  the line opens a multi-line string / triple-quote block that continues below
    cont:   the line is joined to the previous logical line (`\\` / ` or` continuation)
    backslash: the line ends with a continuation backslash."""
    lines = text.split("\n")
    info = []
    state = None
    joined = None  # text of the logical line being continued
    for ln in lines:
        raw = ln.strip()
        if state == "str":
            info.append((True, False, False, False))
            if raw.endswith('"'):
                state = None
            continue
        if joined is not None:
            # this physical line is appended (stripped, comment included) to the logical line
            t = joined[:-1] if joined.endswith("\\") else joined
            if not t.endswith(" "):
                t += " "
            t += raw
            bs = t.endswith("\\")
            info.append((False, False, True, bs))
            joined = t if (bs or t.endswith(" or")) else None
            continue
        if raw.startswith('"') and not raw.startswith('"""') and not raw.endswith('"'):
            state = "str"
            info.append((False, True, False, False))
            continue
        if raw == "" or raw[0] == "#":
            info.append((state == "doc", False, False, False))
            continue
        code = _strip_eol_comment(raw)
        if state == "doc":
            info.append((True, False, False, False))
            if code.endswith('"""'):
                state = None
            continue
        if code.startswith('"""'):
            if code == '"""' or not code.endswith('"""'):
                state = "doc"
                info.append((False, True, False, False))
            else:
                info.append((False, False, False, False))
            continue
        bs = code.endswith("\\")
        info.append((False, False, False, bs))
        if code and (bs or code.endswith(" or")):
            joined = code
    return lines, info


# ------------------------------------------------------------------ edits
POS_KINDS = {"2.x": ("blank", "blankws", "trail", "tab", "comment"),
             "1.0": ("blank", "blankws", "trail", "tab", "strtrail")}
SUFFIX = {"trail": "  ", "tab": "\t", "comment": " # c", "strtrail": "   "}


def kinds_for(name, ver):
    """Edit kinds applied to a seed."""
    from vf.props import c13_blocks as B

    if ver == "2.x" and B.takes_payloads(name):
        return POS_KINDS[ver] + B.payload_kinds()
    return POS_KINDS[ver]


def suffix(kind):
    if kind.startswith("comment["):
        from vf.props import c13_blocks as B

        return B.payload_text(kind)
    return SUFFIX[kind]
BLANK = {"blank": "", "blankws": "   "}


def positions(ver, text, kind):
    """Positions (line indices; len(lines) = append at the end) at which `kind` applies."""
    if ver == "2.x":
        lines, info = scan_v2(text)
        n = len(lines)
        if kind in BLANK:
            ps = [j for j in range(n) if not info[j][0] and info[j][1] == 0]
            if not info[-1][2] and info[-1][3] == 0:
                ps.append(n)
            return ps
        ps = [j for j in range(n) if not info[j][2] and info[j][3] == 0]
        if kind.startswith("comment"):
            ps = [j for j in ps if info[j][4] and lines[j].strip()]
        return ps
    lines, info = scan_v1(text)
    n = len(lines)
    if kind == "strtrail":
        return [j for j in range(n) if info[j][1] or (info[j][0] and not _v1_closes(lines, info, j))]
    if kind in BLANK:
        # (a line joined to its predecessor by a trailing ` or` may be preceded by a blank line; one joined by a `\\` may not)
        ps = [j for j in range(n) if not info[j][0] and not (info[j][2] and (j == 0 or info[j - 1][3]))]
        # appending at the end is fine unless the last line opens / continues something
        last = info[-1]
        if not last[1] and not last[3] and not _v1_open_at_end(lines, info):
            ps.append(n)
        return ps
    ps = []
    for j in range(n):
        inside, opens, cont, bs = info[j]
        if opens or bs:
            continue
        if inside and not _v1_closes(lines, info, j):
            continue
        ps.append(j)
    return ps


def _v1_closes(lines, info, j):
    """line j is the closing line of a multi-line string / block (next line is outside)."""
    return info[j][0] and (j + 1 >= len(lines) or not info[j + 1][0])


def _v1_open_at_end(lines, info):
    # a string / block / continuation still open at EOF (cannot happen in a seed that parses
    # meaningfully, but keep the rule total)
    j = len(lines) - 1
    if info[j][0] and not (lines[j].strip().endswith('"')):
        return True
    return False


def apply_pos(text, kind, ps):
    lines = text.split("\n")
    if kind in BLANK:
        for j in sorted(ps, reverse=True):
            lines.insert(j, BLANK[kind])
    else:
        for j in ps:
            lines[j] = lines[j] + suffix(kind)
    return "\n".join(lines)


def scale(ver, text, k):
    """Uniform indentation scaling; None when the file cannot be scaled (tabs)."""
    if ver == "2.x":
        lines, info = scan_v2(text)
        keep = [i[0] or i[1] > 0 for i in info]
    else:
        lines, info = scan_v1(text)
        keep = [i[0] or i[2] for i in info]
    out = []
    for ln, kp in zip(lines, keep):
        if kp:
            out.append(ln)
            continue
        body = ln.lstrip(" \t")
        lead = ln[: len(ln) - len(body)]
        if "\t" in lead:
            if body == "":
                out.append(ln)
                continue
            return None
        out.append(lead * k + body)
    return "\n".join(out)


def line_class(text, kind, pos):
    if pos is None:
        return "file"
    lines = text.split("\n")
    if pos >= len(lines):
        return "eof"
    s = lines[pos].strip()
    if s == "":
        return "blank"
    if s.startswith('"""') or s.startswith("'''"):
        return "docstring"
    if s[0] in "\"'":
        return "string"
    if s[0] == "#":
        return "comment"
    if s[0] == "$":
        return "$var"
    if s[0] == "@":
        return "decorator"
    if s.startswith("..."):
        return "ellipsis"
    w = ""
    for ch in s:
        if ch.isalnum() or ch == "_":
            w += ch
        else:
            break
    return w if w in KEYWORDS else "other"


# ------------------------------------------------------------------ workers
_BASE = {}


def base_of(name, ver, text):
    """(final_version, flows_key | None, n_flows, error)."""
    k = (name, ver)
    if k in _BASE:
        return _BASE[k]
    res = None
    for v in (ver, "1.0" if ver == "2.x" else "2.x"):
        try:
            p = parse(name, text, v)
        except Exception as e:  # noqa
            res = (v, None, 0, f"{type(e).__name__}: {str(e)[:160]}")
            break
        if p == {}:
            # "not a file of this version" (library heuristic) -> try the other version
            res = (v, None, 0, "skipped by the version heuristic for both versions")
            continue
        res = (v, flows_key(p), len(p.get("flows", [])), None)
        break
    _BASE[k] = res
    return res


def inner_lib_function(tb):
    fn = "?"
    for fs in traceback.extract_tb(tb):
        if "nemoguardrails" in fs.filename.replace("\\", "/").split("/"):
            fn = fs.name
    return fn


def check_edit(name, ver, text, base_key, kind, pos, edited):
    """-> (status, outcome) ; status in same/unchanged/differ/error"""
    if edited == text:
        return "unchanged", None
    try:
        p = parse(name, edited, ver)
    except Exception as e:  # noqa
        tok = ""
        if type(e).__name__ == "UnexpectedToken":
            tok = f"[{getattr(getattr(e, 'token', None), 'type', '?')}]"
        elif type(e).__name__ == "UnexpectedCharacters":
            tok = f"[{getattr(e, 'char', '?')!r}]"
        return "error", f"{type(e).__name__}{tok}@{inner_lib_function(e.__traceback__)}"
    if p == {}:
        return "error", "not-parsed-as-this-version"
    if flows_key(p) != base_key:
        return "differ", "flows-differ"
    return "same", None


def l_base_task(task):
    name, ver, text = task
    v, key, nflows, err = base_of(name, ver, text)
    plan = {}
    if key is not None:
        for kind in kinds_for(name, v):
            plan[kind] = len(positions(v, text, kind))
    return (name, ver, v, key is not None, nflows, err, plan)


def l_edit_task(task):
    """task = (name, ver, text, kind, lo, hi)  kind in POS_KINDS (positions[lo:hi], one at
    a time) | 'all:<kind>' | 'scale:<k>' | 'bundle' (= every kind, every all:<kind>, scale 2 and 3)."""
    name, ver0, text, kind, lo, hi = task
    ver, base_key, nflows, err = base_of(name, ver0, text)  # ver = the version the file really parses with
    assert base_key is not None, (name, err)
    out = {"evals": 0, "changed_and_parsed": 0, "unchanged": 0, "fails": [], "not_scalable": 0, "by_kind": {}}

    def one(kd, pos, edited, ps=None):
        st, outcome = check_edit(name, ver, text, base_key, kd, pos, edited)
        if st == "unchanged":
            out["unchanged"] += 1
            return
        out["evals"] += 1
        out["by_kind"][kd] = out["by_kind"].get(kd, 0) + 1
        if st == "same":
            if nflows:
                out["changed_and_parsed"] += 1
        else:
            out["fails"].append(
                {"name": name, "ver": ver, "kind": kd, "pos": pos, "outcome": outcome,
                 "cls": line_class(text, kd, pos), "npos": len(ps) if ps is not None else 1}
            )

    def run(kind, lo, hi):
        if kind.startswith("scale:"):
            k = int(kind[6:])
            ed = scale(ver, text, k)
            if ed is None:
                out["not_scalable"] += 1
            else:
                one(kind, None, ed)
        elif kind.startswith("all:"):
            kd = kind[4:]
            ps = positions(ver, text, kd)
            if ps:
                one(kind, None, apply_pos(text, kd, ps), ps)
        else:
            ps = positions(ver, text, kind)[lo:hi]
            for j in ps:
                one(kind, j, apply_pos(text, kind, [j]))

    if kind == "bundle":
        for kd in kinds_for(name, ver):
            run(kd, 0, None)
            run("all:" + kd, 0, 0)
        run("scale:2", 0, 0)
        run("scale:3", 0, 0)
    else:
        run(kind, lo, hi)
    return out


def edited_text(ver, text, kind, pos):
    if kind.startswith("scale:"):
        return scale(ver, text, int(kind[6:]))
    if kind.startswith("all:"):
        return apply_pos(text, kind[4:], positions(ver, text, kind[4:]))
    return apply_pos(text, kind, [pos])
