"""C02, Colang 2.x with the guardrails library: output rails that REWRITE the bot message.

The library publishes the message to its rails in the global `$bot_message` (`_bot_say` sets it before `run output rails`); the
shipped rewriting rails (`mask sensitive data on output`, `autoalign check output`) and any masking rail of an application
rewrite by assigning that global.  Rails here have exactly that shape: read `$bot_message`, reject (refusal + abort) or assign
`$bot_message`.  Statement: "a rewritten message is returned in its rewritten form".

Worlds: every order of one / two rails x rail exceptions off / on; conversations: 2 turns (thorough 3), per turn every verdict
vector over {accept, reject, rewrite}.  Oracle (fold): rail k is invoked on the text as left by rails 1..k-1; rejected -> the
refusal / the rail exception, the LLM text not in the reply; otherwise the reply is the text as left by the last rail."""
from __future__ import annotations

import itertools

from vf.props import railsworld as rw
from vf.props.c01 import outcomes as outcomes_v1
from vf.props.c01_v2 import reply_events


def rail(name):
    return f"""
flow {name}
  global $bot_message
  $r = await VerifRailAction(rail="{name}", text=$bot_message)
  if not $r
    if $system.config.enable_rails_exceptions
      send OutputRailException(message="BLOCKED-{name}")
    else
      bot say "REFUSED-{name}"
    abort
  if $r != True
    $bot_message = $r
"""


def tasks(tier):
    orders = [("out1",), ("out1", "out2"), ("out2", "out1")]
    return [("v2rw", o, exc, 2 if tier == "quick" else 3) for o in orders for exc in (False, True)]


def llm_fn(task, prompt, i):
    return f'"LLMTEXT-{rw.digest(prompt)}x"'


def explore(task):
    _t, order, exceptions, turns = task
    res = {"worlds": 1, "turns": 0, "conversations": 0, "rejections": 0, "rewrites": 0, "llm_text_turns": 0, "rail_calls": 0,
           "turns_after_a_block_or_rewrite": 0, "v2_rewriting_rail_turns": 0, "viol": []}
    tag = "v2:nodialog:rails-rewriting-the-global-bot-message" + (":rails-exceptions" if exceptions else "")
    info0 = {"engine": "E3-world", "prop": "C02", "part": "v2rewrite", "order": list(order), "exceptions": exceptions, "turns": turns}
    colang = "import core\nimport guardrails\n" + "".join(rail(r) for r in order) + "\nflow output rails $output_text\n" + "".join(f"  {r}\n" for r in order) + rw.V2_MAIN_NODIALOG
    try:
        from vf.engines.world import World
        world = World(colang, 'colang_version: "2.x"\n' + ("enable_rails_exceptions: True\n" if exceptions else ""))
        world.rails.register_action(world._rail_action, name="VerifRailAction")
        world.rails.register_action(world._dialog_action, name="VerifLookupAction")
    except Exception as e:
        res["viol"].append((f"world-rejected:{tag}", repr(e), info0))
        return res
    outs = [o for o in outcomes_v1(order) if "N" not in o]
    nonce = [0]

    def expand(state, t, hist, disturbed):
        if t > turns:
            res["conversations"] += 1
            return
        for oc in outs:
            nonce[0] += 1
            user_text = f"U{t}x{nonce[0]}q hello"
            verdicts, plan = {}, []
            for r, k in zip(order, oc):
                plan.append((r, k))
                verdicts[r] = k if k in "AR" else ("W", f"RW{r}t{t}x{nonce[0]}q rewritten")
                if k == "R":
                    break
            turn = rw.run_turn(world, [{"role": "user", "content": user_text}], verdicts, llm_fn, state=state)
            res["turns"] += 1
            res["llm_text_turns"] += 1
            if disturbed:
                res["turns_after_a_block_or_rewrite"] += 1
            step = {"t": t, "user": user_text, "outcome": "".join(oc)}
            info = dict(info0, history=hist + [step])

            def bad(sig, what, plain=False):
                # plain: ONE signature for the defect whatever the rest of the world / the history is
                res["viol"].append((f"{sig}:v2:rails-rewriting-the-global-bot-message" if plain else (f"{sig}:{tag}" + (":after-block-or-rewrite" if disturbed else "")), what, info))

            if turn.exc is not None:
                bad("generate-raised", repr(turn.exc))
                continue
            gen = [c for c in turn.llm_calls if "LLMTEXT-" in str(c.get("answer", ""))]
            if not gen:
                bad("no-bot-message-generated", f"reply {turn.text!r}")
                continue
            llm_text = gen[-1]["answer"].strip().strip('"')
            cur, expected, rejected_by = llm_text, [], None
            for r, k in plan:
                expected.append((r, cur))
                if k == "R":
                    rejected_by = r
                    break
                if k == "W":
                    cur = verdicts[r][1]
            got = [(a["rail"], a["text"]) for a in turn.actions if a.get("rail") in rw.OUT_RAILS and not str(a["text"]).startswith("REFUSED-")]
            res["rail_calls"] += len(got)
            reply = turn.text or ""
            now = disturbed or rejected_by is not None or cur != llm_text
            if got != expected:
                bad("output-rail-sequence", f"order={order} outcome={oc}: LLM text {llm_text!r}; rails invoked {got}, expected {expected}; reply {reply!r}")
            if rejected_by:
                res["rejections"] += 1
                if llm_text in reply:
                    bad("rejected-text-in-reply", f"rail {rejected_by} rejected {llm_text!r} but the reply is {reply!r}")
                if exceptions:
                    evs = [e for e in reply_events(turn.reply) if e.get("type") == "OutputRailException"]
                    if not (evs and evs[0].get("message") == f"BLOCKED-{rejected_by}"):
                        bad("reply-is-not-the-rail-exception", f"rail {rejected_by} rejected; reply {reply!r}")
                elif reply != f"REFUSED-{rejected_by}":
                    bad("reply-is-not-the-refusal", f"rail {rejected_by} rejected; reply {reply!r}")
            elif cur != llm_text:
                res["rewrites"] += 1
                res["v2_rewriting_rail_turns"] += 1
                if reply != cur:
                    if llm_text in reply:
                        bad("rewritten-message-returned-in-its-original-form", f"order={order} outcome={oc}: the rails rewrote the LLM text {llm_text!r} to {cur!r} (rails invoked: {got}); "
                                                                               f"the reply is {reply!r} - the text from before the rewriting", plain=True)
                    else:
                        bad("reply-is-not-the-checked-text", f"outcome={oc}: expected the rewritten text {cur!r}, got {reply!r}")
            elif reply != cur:
                bad("reply-is-not-the-checked-text", f"outcome={oc}: expected {cur!r}, got {reply!r}")
            expand(turn.reply.state, t + 1, hist + [step], now)

    expand({}, 1, [], False)
    seen, uniq = set(), []
    for v in res["viol"]:
        if v[0] not in seen:
            seen.add(v[0])
            uniq.append(v)
    res["viol"] = uniq
    return res


def replay(rp):
    r = explore(("v2rw", tuple(rp["order"]), rp["exceptions"], len(rp["history"])))
    want = [s["outcome"] for s in rp["history"]]
    for sig, what, info in r["viol"]:
        if [s["outcome"] for s in info["history"]] == want:
            print(sig, "|", what)
    print("expected: the reply is the text as left by the last output rail (the rewritten form)")
    return 0
