"""C17 - arbitrary LLM output never breaks a turn and is treated as data.

A hostile corpus (+ single-edit mutations of the well-formed answers) is placed at every LLM call
position of every turn (singles; pairs in thorough) for the Colang 1.0 modes {general, three-step
dialog, single call, multi-step generation, passthrough} and the Colang 2.x LLM flows (intent
detection + flow continuation, value generation).  Oracle: generate never raises, returns a
well-formed assistant / exception message, and template / variable syntax reaching the reply is
there literally.
"""
from __future__ import annotations

import itertools

from vf.props import railsworld as rw
from vf.engines.world import World

PROP = "C17"

CORPUS = [
    "", " ", "\n", "\n\n  \n", "\t", "...", "None", "null", "0", "True",
    "bot", "user", "bot ", "user ask", 'bot "x', '"', '""', "'", '"unbalanced', 'unbalanced"', "  \"",
    "define flow x\n  user y\n  bot z", "flow x\n  match E()", "execute rm", "stop", "abort", "if $x\n  bot y", "else", "when",
    "{{ 1234*5 }}", "{% raw %}", "{% for x in y %}", "{{ config }}", "{{ 7/0 }}", "$user_message", "{$x}", "$bot_message {{ 1234*5 }}",
    'bot say "{{ 1234*5 }}"', "Bot message: \"hi", "user intent: ", "bot intent: bot x\nbot action: y", "\\", "\\n\\\"", "\x00", "é ü 漢字 🙂",
    "# comment", "  ask\nbot inform\n  \"{{ 1234*5 }} $user_message\"", "A" * 10000, "bot inform " * 300, "\"" * 51,
    "user ask\n  bot inform\n  user ask\n  bot inform", "bot $x", "bot {{x}}", "  express greeting\nbot express greeting", "1/0", "[1, 2", "{'a': ", "__import__('os')", "bot a\nbot b\n$x = 1/0", "$x = 1/0", "bot a\nbot b\n  $y = (((", "bot a\nexecute nothing_registered", "bot a\nbot b\nelse",
    "'{$v} {{ 1234*5 }}'", "'$user_message {$x}'", "[...]", "b'bytes'", "1j", "{1, 2}", "(1, 2)", "{1: 'a'}", "-5", "1e400",
    # containers whose *keys* / nested members are values the state cannot hold
    "{...: 1}", "{b'k': 1}", "{1j: 'x'}", "{(1, ...): 'x'}", "{(1, 2): 'x'}", "{None: 1}", "{True: 1, 1.5: 2}", "[{...: 1}]", "{'a': {b'k': 1}}",
    "[(1, 2), {3}]", "{'a': (1, [2, ...])}", "{frozenset({1}): 1}",
    # bot intents that name context variables which are not strings
    # generated flows that parse but are long, loop for ever or call something that does not exist
    "bot a\n" + "".join(f"bot say something {i}\n" for i in range(40)), "bot a\nwhile True\n  $x = 1", "bot a\ndo something undefined\nbot b", "bot a\nif $foo.bar\n  bot b",
    # longer than the prompt budget of the following call (the history has to be cut to fit)
    "w" * 20000, "ask " + "z" * 20000, "  ask\nbot " + "v" * 20000,
    # text that cannot be encoded as UTF-8: a lone surrogate (what a truncated emoji escape decodes to), alone and inside a message
    "\ud83d", "hello \ud83d there", "  ask\nbot inform\n  \"hi \udc00\"", '"\ud83d"',
    "bot $event", "bot $generation_options", "bot $relevant_chunks", "bot $last_user_message", "  ask\nbot $event",
]

MODES_V1 = {
    "general": dict(dialog=False, yaml=""),
    "threestep": dict(dialog=True, yaml=""),
    "single_call": dict(dialog=True, yaml="rails:\n  dialog:\n    single_call:\n      enabled: True\n"),
    "multi_step": dict(dialog=True, yaml="enable_multi_step_generation: True\n"),
    "passthrough": dict(dialog=False, yaml="passthrough: True\n"),
    # LLM calls made by library rails: the shipped self-check rails (input / output / facts) with their real actions; the
    # request carries the context that switches the fact check on and the evidence it checks against
    "check_rails": dict(dialog=False, context={"check_facts": True, "relevant_chunks": "The sky is blue."},
                        yaml="rails:\n  input:\n    flows:\n      - self check input\n  output:\n    flows:\n      - self check output\n      - self check facts\n"
                             "  dialog:\n    single_call:\n      enabled: False\n"
                             "prompts:\n  - task: self_check_input\n    content: |-\n      Block the user message? {{ user_input }}\n      Answer:\n"
                             "  - task: self_check_output\n    content: |-\n      Block the bot message? {{ bot_response }}\n      Answer:\n"
                             "  - task: self_check_facts\n    content: |-\n      Evidence: {{ evidence }}\n      Hypothesis: {{ response }}\n      Entails?\n      Answer:\n"),
}


def _messages(version, mode, utext):
    """the request for one turn: the user message, preceded by the context message a mode asks for"""
    ctx = MODES_V1.get(mode, {}).get("context") if version != "2.x" else None
    return ([{"role": "context", "content": dict(ctx)}] if ctx else []) + [{"role": "user", "content": utext}]

V2_LLM = """
import core
import llm

flow main
  activate llm continuation
  activate asking value

flow asking value
  user said "value"
  $v = ..."Generate a value for the user"
  bot say "VAL {$v}"
"""


def well_formed(task, prompt, version, mode):
    t = str(task)
    if version == "2.x":
        if "user intent" in prompt[-400:].lower() and "bot intent" in prompt[-200:].lower():
            return "user intent: user asked something\nbot intent: bot inform something\nbot action: bot say \"LLMTEXT-ok\""
        if "$v =" in prompt[-40:]:
            return '"LLMVALUE-ok"'
        if "user intent:" in prompt[-60:]:
            return "user asked something"
        return 'bot say "LLMTEXT-ok"'
    if "self_check_facts" in t:
        return "yes"
    if "self_check" in t:
        return "No"
    if "generate_intent_steps_message" in t:
        return '  ask\nbot inform capabilities\n  "LLMTEXT-ok"'
    if "generate_user_intent" in t:
        return "  ask"
    if "generate_next_step" in t:
        return "bot inform capabilities"
    if "generate_bot_message" in t:
        return '  "LLMTEXT-ok"'
    return "LLMTEXT-ok"


def mutations(s):
    out = []
    for i in range(len(s)):
        out.append(s[:i] + s[i + 1:])
        out.append(s[:i] + '"' + s[i:])
        out.append(s[:i] + "\n" + s[i:])
    return out


def build(version, mode):
    if version == "2.x":
        return World(V2_LLM, 'colang_version: "2.x"\n')
    m = MODES_V1[mode]
    colang = rw.V1_DIALOG if m["dialog"] else ""
    yaml = m["yaml"]
    if mode == "single_call":
        return World(colang, yaml)
    return World(colang, yaml if yaml else "rails:\n  dialog:\n    single_call:\n      enabled: False\n")


class TurnTimeout(BaseException):
    pass


_IN_TURN = [False]


def _on_alarm(*_a):
    if _IN_TURN[0]:     # (never inside the worker pool's own code)
        raise TurnTimeout("the turn did not complete within the wall-clock horizon")


TURN_HORIZON_S = 20


def run_turn_guarded(world, *a, **kw):
    """rw.run_turn with a wall-clock horizon (a turn that never returns is an observation, not a hung check)"""
    import signal
    signal.signal(signal.SIGALRM, _on_alarm)
    signal.signal(signal.SIGVTALRM, _on_alarm)
    # two horizons: TURN_HORIZON_S of CPU time of this process (a turn that spins; independent of the load of the machine)
    # and a wall-clock horizon several times as long (a turn that waits for ever without using the CPU).
    # repeating: an exception raised from a signal handler can land in code that swallows it (asyncio's Handle._run
    # reports a BaseException of a callback to the loop's exception handler and goes on) - it is raised again 3 s later
    signal.setitimer(signal.ITIMER_VIRTUAL, TURN_HORIZON_S, 3)
    signal.setitimer(signal.ITIMER_REAL, 6 * TURN_HORIZON_S, 3)
    _IN_TURN[0] = True
    try:
        return rw.run_turn(world, *a, **kw)
    finally:
        _IN_TURN[0] = False
        signal.setitimer(signal.ITIMER_VIRTUAL, 0)
        signal.setitimer(signal.ITIMER_REAL, 0)


def check_reply(turn, hostile_list, user_text):
    """returns list of (sig, what)"""
    out = []
    if isinstance(turn.exc, TurnTimeout):
        out.append(("generate-does-not-return", f"generate() was still running after {TURN_HORIZON_S} s of CPU time (or {6 * TURN_HORIZON_S} s of wall-clock time)"))
        return out
    if turn.exc is not None:
        e = turn.exc
        import re as _re
        head = "-".join(_re.sub(r"[^A-Za-z ]", " ", str(e)).split()[:2])
        out.append((f"generate-raised:{type(e).__name__}[{head}]", f"{e!r}"))
        return out
    r = turn.reply
    msg = r
    if hasattr(r, "response"):
        msg = r.response
        if isinstance(msg, list):
            msg = msg[-1] if msg else None
    if isinstance(msg, str):
        msg = {"role": "assistant", "content": msg}
    if not isinstance(msg, dict) or msg.get("role") not in ("assistant", "exception"):
        out.append(("malformed-reply", f"reply {r!r}"))
        return out
    c = msg.get("content")
    if msg["role"] == "assistant" and not isinstance(c, str):
        out.append(("malformed-reply-content", f"content {c!r}"))
        return out
    text = c if isinstance(c, str) else str(c)
    joined = " ".join(hostile_list)
    if "1234*5" in joined and "6170" in text:
        out.append(("template-evaluated", f"LLM text contained `{{{{ 1234*5 }}}}` and the reply contains 6170: {text[:200]!r}"))
    if "$user_message" in joined and user_text in text and "$user_message" not in text:
        out.append(("variable-evaluated", f"LLM text contained `$user_message` and the reply contains the user's text: {text[:200]!r}"))
    if "{{ config }}" in joined and "RailsConfig" in text:
        out.append(("template-evaluated", f"`{{{{ config }}}}` was evaluated: {text[:200]!r}"))
    return out


def explore(task):
    version, mode, items, pairs = task
    res = {"worlds": 1, "turns": 0, "llm_positions": 0, "hostile_reached_reply": 0, "viol": []}
    info0 = {"engine": "E3-world", "prop": "C17", "version": version, "mode": mode}
    try:
        world = build(version, mode)
    except Exception as e:
        res["viol"].append((f"world-rejected:{version}:{mode}", repr(e), info0))
        return res
    v2 = version == "2.x"
    user_texts = ["value", "something else"] if v2 else ["UMARK hello there"]
    nonce = [0]
    for ut in user_texts:
        # --- how many LLM calls does a well-formed turn make?
        def wf(task, prompt, i):
            return well_formed(task, prompt, version, mode)
        nonce[0] += 1
        utext = ut if v2 else f"UMARK{nonce[0]}q hello there"
        ref = run_turn_guarded(world, _messages(version, mode, utext), {}, wf, state={} if v2 else None)
        if ref.exc is not None:
            res["viol"].append((f"well-formed-run-raised:{version}:{mode}", repr(ref.exc), info0))
            continue
        ref_utext = utext
        n_calls = max(1, len(ref.llm_calls))
        res["llm_positions"] += n_calls
        combos = [(k,) for k in range(n_calls + 1)]  # +1: a call that only exists after a hostile answer
        for pos in combos:
            for h in items:
                hs = {pos[0]: h}
                turns_spec = [hs]
                if pairs and n_calls >= 2:
                    pass
                nonce[0] += 1
                utext = ut if v2 else f"UMARK{nonce[0]}q hello there"
                base = len(world.llm.calls)

                def fn(task, prompt, i, _hs=hs, _base=base):
                    k = i - _base
                    if k in _hs:
                        return _hs[k]
                    return well_formed(task, prompt, version, mode)

                turn = run_turn_guarded(world, _messages(version, mode, utext), {}, fn, state={} if v2 else None)
                res["turns"] += 1
                info = dict(info0, user=utext, hostile={str(k): (v if len(v) < 300 else v[:40] + f"...(len {len(v)})") for k, v in hs.items()},
                            hostile_full_len={str(k): len(v) for k, v in hs.items()})
                for sig, what in check_reply(turn, list(hs.values()), utext):
                    res["viol"].append((f"{sig}:{'v2' if v2 else 'v1'}:{mode}:call{pos[0]}", what, info))
                if isinstance(turn.exc, TurnTimeout):
                    world = build(version, mode)   # the interrupted instance is not used again
                    continue
                if turn.exc is None and turn.text and h.strip() and h.strip()[:30] in (turn.text or ""):
                    res["hostile_reached_reply"] += 1
                # second turn after the hostile one, well-formed
                if turn.exc is None and not v2:
                    reply = turn.reply if isinstance(turn.reply, dict) else None
                    if reply and reply.get("role") == "assistant":
                        msgs = _messages(version, mode, utext) + [reply, {"role": "user", "content": utext + " again"}]
                        t2 = run_turn_guarded(world, msgs, {}, wf)
                        res["turns"] += 1
                        for sig, what in check_reply(t2, [h], utext):
                            res["viol"].append((f"{sig}:v1:{mode}:next-turn-after-call{pos[0]}", what, dict(info, second_turn=True)))
                elif turn.exc is None and v2 and turn.reply is not None:
                    t2 = run_turn_guarded(world, [{"role": "user", "content": "something else"}], {}, wf, state=turn.reply.state)
                    res["turns"] += 1
                    for sig, what in check_reply(t2, [h], utext):
                        res["viol"].append((f"{sig}:v2:{mode}:next-turn-after-call{pos[0]}", what, dict(info, second_turn=True)))
        # whatever the LLM returned in the turns above is data of those turns: the same well-formed turn asked again on
        # the instance that served them is answered as it was at the beginning
        if not isinstance(world, type(None)):
            again = run_turn_guarded(world, _messages(version, mode, ref_utext), {}, wf, state={} if v2 else None)
            res["turns"] += 1
            res["well_formed_turns_repeated_on_the_used_instance"] = res.get("well_formed_turns_repeated_on_the_used_instance", 0) + 1
            if again.exc is not None or again.text != ref.text:
                res["viol"].append((f"well-formed-turn-answered-differently-on-the-used-instance:{'v2' if v2 else 'v1'}:{mode}",
                                    f"the turn {ref_utext!r} with well-formed LLM answers replied {ref.text!r} on the fresh instance; after {res['turns']} turns on that instance "
                                    f"(LLM answers of every corpus item at every call position) it replies {again.text!r} {again.exc!r}", dict(info0, user=ref_utext, repeat=True)))
        if pairs and n_calls >= 2:
            small = items[:12]
            for (a, b) in itertools.combinations(range(n_calls), 2):
                for ha, hb in itertools.product(small, repeat=2):
                    nonce[0] += 1
                    utext = ut if v2 else f"UMARK{nonce[0]}q hello there"
                    base = len(world.llm.calls)
                    hs = {a: ha, b: hb}

                    def fn2(task, prompt, i, _hs=hs, _base=base):
                        k = i - _base
                        return _hs[k] if k in _hs else well_formed(task, prompt, version, mode)

                    turn = run_turn_guarded(world, _messages(version, mode, utext), {}, fn2, state={} if v2 else None)
                    res["turns"] += 1
                    info = dict(info0, user=utext, hostile={str(k): v[:60] for k, v in hs.items()})
                    for sig, what in check_reply(turn, [ha, hb], utext):
                        res["viol"].append((f"{sig}:{'v2' if v2 else 'v1'}:{mode}:calls{a}+{b}", what, info))
    seen, uniq = set(), []
    for v in res["viol"]:
        if v[0] not in seen:
            seen.add(v[0])
            uniq.append(v)
    res["viol"] = uniq
    return res



# ----------------------------------------------------------------------------- Colang 2.x: generated values as data
# Texts the LLM produces for `$name = ..."..."` / `$topic = ..."..."` are interpolated into a message with TWO
# placeholders; whatever brace / variable syntax they contain must arrive in the reply literally.
V2_TWO = """
import core
import llm

flow main
  activate asking two

flow asking two
  user said "two"
  $name = ..."Generate a name"
  $topic = ..."Generate a topic"
  bot say "Hi {$name}, let us talk about {$topic}."
"""

BRACE_VALUES = ["plain", "{$topic}", "{$name}", "{$system}", "Bob {nick: Bobby}", "{{7*7}}", "{{ 1234*5 }}", '{"a": 1}', "$topic", "{", "}", "{}", "{{", "}}",
                "a {$topic} b {$name}", "{$topic}{$topic}", "{{$topic}}", "\\{$topic\\}", "{0}", "%s {x!r}"]


def explore_v2_values(chunk):
    res = {"worlds": 1, "turns": 0, "llm_positions": 0, "hostile_reached_reply": 0, "viol": []}
    world = World(V2_TWO, 'colang_version: "2.x"\n')
    for name, topic in chunk:
        def fn(task, prompt, i, name=name, topic=topic):
            tail = prompt[-60:]
            if "$name =" in tail:
                return repr(name)
            if "$topic =" in tail:
                return repr(topic)
            return '"?"'
        turn = rw.run_turn(world, [{"role": "user", "content": "two"}], {}, fn, state={})
        res["turns"] += 1
        res["llm_positions"] += len(turn.llm_calls)
        info = {"engine": "E3-world", "prop": "C17", "version": "2.x", "mode": "two_values", "name": name, "topic": topic}
        if turn.exc is not None:
            res["viol"].append((f"generate-raised:{type(turn.exc).__name__}:v2:two_values", f"name={name!r} topic={topic!r}: {turn.exc!r}", info))
            continue
        want = f"Hi {name}, let us talk about {topic}."
        if len(turn.llm_calls) != 2:
            res["viol"].append(("harness:v2-two-values-llm-calls", f"{len(turn.llm_calls)} LLM calls", info))
            continue
        if turn.text == want:
            res["hostile_reached_reply"] += 1
        else:
            kind = "double-braces-collapsed" if turn.text == want.replace("{{", "{").replace("}}", "}") else "generated-value-not-literal"
            res["viol"].append((f"{kind}:v2:two_values", f"LLM values name={name!r}, topic={topic!r}: reply {turn.text!r}, expected {want!r}", info))
    seen, uniq = set(), []
    for v in res["viol"]:
        if v[0] not in seen:
            seen.add(v[0])
            uniq.append(v)
    res["viol"] = uniq
    return res


def tasks(tier):
    items = list(CORPUS)
    if tier == "thorough":
        for wfa in ("  ask", "bot inform capabilities", '  "LLMTEXT-ok"', '  ask\nbot inform capabilities\n  "LLMTEXT-ok"'):
            items.extend(mutations(wfa))
    out = []
    chunk = 16 if tier == "quick" else 24
    for mode in MODES_V1:
        for i in range(0, len(items), chunk):
            out.append(("1.0", mode, items[i:i + chunk], tier == "thorough" and i == 0))
    for i in range(0, len(items), chunk):
        out.append(("2.x", "llm_flows", items[i:i + chunk], tier == "thorough" and i == 0))
    return out


def run(rep, tier):
    from vf import par
    import vf.engines.world  # noqa

    ts = tasks(tier)
    agg = {}
    for r in par.pmap(explore, ts):
        for k, v in r.items():
            if isinstance(v, int):
                agg[k] = agg.get(k, 0) + v
        for sig, what, info in r["viol"]:
            rep.violation(sig, what, info)
    pairs = [(a, b) for a in BRACE_VALUES for b in (BRACE_VALUES if tier == "thorough" else ["plain", "{$name}", "cats {x}"])]
    for r in par.pmap(explore_v2_values, [pairs[i:i + 10] for i in range(0, len(pairs), 10)]):
        for k, v in r.items():
            if isinstance(v, int):
                agg[k] = agg.get(k, 0) + v
        for sig, what, info in r["viol"]:
            rep.violation(sig, what, info)
    rep.set("v2_generated_value_pairs", len(pairs))
    for k, v in agg.items():
        rep.set(k, v)
    rep.set("corpus_size", len(CORPUS))
    rep.set("evaluations", agg.get("turns", 0))
    rep.set("distinct_nontrivial", agg.get("turns", 0) // 2)
    rep.set("rule", "every corpus item x every LLM call position (incl. one position past the well-formed call count) x every mode, followed by a well-formed second turn; thorough adds single-edit mutations of the well-formed answers and pairs of positions; "
                    "each (mode, position, item) is a distinct case; about half of the evaluations are hostile turns (the rest are the follow-up turns)")
    rep.set("exhaustive", True)
    rep.assumptions += ["LLM provider errors are out of scope; the corpus is finite (listed in vf/props/c17.py)"]
    rep.sample({"mode": "threestep", "position": 2, "hostile": 'bot "x'})
    rep.sample({"mode": "single_call", "position": 0, "hostile": "{{ 1234*5 }}"})


def replay(rp):
    if rp.get("mode") == "two_values":
        r = explore_v2_values([(rp["name"], rp["topic"])])
        print(r["viol"] or "no violation")
        return 0
    world = build(rp["version"], rp["mode"])
    v2 = rp["version"] == "2.x"
    hs = {}
    for k, v in rp["hostile"].items():
        full = next((c for c in CORPUS if c.startswith(v.split("...(len")[0]) and len(c) == rp.get("hostile_full_len", {}).get(k, len(c))), v)
        hs[int(k)] = full
    base = len(world.llm.calls)

    def fn(task, prompt, i):
        k = i - base
        return hs[k] if k in hs else well_formed(task, prompt, rp["version"], rp["mode"])

    turn = rw.run_turn(world, [{"role": "user", "content": rp["user"]}], {}, fn, state={} if v2 else None)
    print("hostile", {k: v[:80] for k, v in hs.items()}, "->", repr((turn.text or "")[:200]), turn.exc)
    print("llm tasks:", [(str(c["task"]), (c.get("answer") or "")[:40]) for c in turn.llm_calls])
    print(rp["what"])
    return 0
