"""C11, API part: snapshots handed out by `generate_async` (Colang 2.x `state`).

A client holds the state returned by a call and sends it back later.  Whatever else happened on the LLMRails
instance in between - the same snapshot submitted twice (double submit / regenerate), overlapping requests that
carry the same snapshot, a request that was abandoned (cancelled) half way and is retried with the snapshot the
client still holds - restoring the snapshot must give a state that continues exactly like the state that was saved:
the reply (and the next turn continued from the returned state) equals the one of a fresh instance that restores
the snapshot and serves that request alone.

E2 (virtual asyncio loop): requests are arrivals, the LLM call of every request is an explorer-owned future, the
cancellation of a request is a choice; all orders up to a deviation bound.
"""
from __future__ import annotations

import time

from vf.engines import aio
from vf.engines.world import World
from vf.props import railsworld as rw

MAIN = """
flow main
  user said "a"
  bot say "one"
  user said "b"
  $t = ..."Continue the story"
  bot say $t
  user said "c"
  bot say "three"
  user said "d"
  bot say "four"
"""

_W = {}


def world(tag="shared"):
    if tag not in _W:
        _W[tag] = rw.v2_world(main=MAIN)
    return _W[tag]


def _text(res):
    if isinstance(res, tuple) and res and res[0] in ("ok", "exc", "cancelled"):
        if res[0] != "ok":
            return "<" + res[0] + (":" + type(res[1]).__name__ if len(res) > 1 else "") + ">"
        res = res[1]
    r = getattr(res, "response", res)
    if isinstance(r, list) and r:
        r = r[-1]
    return r.get("content") if isinstance(r, dict) else repr(r)


def _state(res):
    if isinstance(res, tuple) and res and res[0] == "ok":
        res = res[1]
    return getattr(res, "state", None)


def _run_default(make):
    env = aio.Env(granularity="quiescence")
    w = make(env)
    env.settle()
    n = 0
    while env.enabled() and n < 2000:
        env.take(env.enabled()[0])
        env.settle()
        n += 1
    return env, w


def alone(tag, messages, state):
    """one request on the instance `tag`, default schedule -> harness result"""
    def make(env):
        w = world(tag)
        w.llm_fn = lambda task, prompt, i: env.external(f"llm{i}", result='"LLM-TEXT"')
        env.arrival("r", lambda: w.rails.generate_async(messages=messages, state=state))
        return w
    env, w = _run_default(make)
    res = env.results.get("r")
    env.close()
    return res


def msg(t):
    return [{"role": "user", "content": t}]


REF = {}


def reference():
    """fresh instance: turn 1, then the snapshot continued with "b" alone, then "c" from the state returned"""
    if not REF:
        r1 = alone("fresh", msg("a"), {})
        r2 = alone("fresh", msg("b"), _state(r1))
        r3 = alone("fresh", msg("c"), _state(r2))
        REF.update(t1=_text(r1), b=_text(r2), c=_text(r3))
    return REF


SCENARIOS = {
    # name: requests continuing from the snapshot S1 of turn 1 (all carry the same message), cancellation of A?
    "double-submit": (("A", "B"), False),
    "triple-submit": (("A", "B", "C"), False),
    "abandon-and-retry": (("A",), True),
    "abandon-retry-and-double-submit": (("A", "B"), True),
}


def make_factory(scenario):
    reqs, cancel = SCENARIOS[scenario]

    def make(env):
        w = world("shared")
        w.llm.calls.clear()
        w.llm_fn = lambda task, prompt, i: env.external(f"llm{i}", result='"LLM-TEXT"')

        def done(label):
            return label in env.results

        def s1():
            return _state(env.results["t1"])

        env.arrival("t1", lambda: w.rails.generate_async(messages=msg("a"), state={}))
        for r in reqs:
            env.arrival(r, lambda: w.rails.generate_async(messages=msg("b"), state=s1()), gate=lambda: done("t1"))
        if cancel:
            async def cancel_a():
                env._harness["A"].cancel()
                return "cancelled A"
            env.arrival("cancelA", cancel_a, gate=lambda: "A" in env._harness and not env._harness["A"].done())
            env.arrival("retry", lambda: w.rails.generate_async(messages=msg("b"), state=s1()),
                        gate=lambda: env.results.get("A") == ("cancelled",))
        return w
    return make


def explore(task):
    scenario, max_dev, budget_s = task
    ref = reference()
    reqs, cancel = SCENARIOS[scenario]
    res = {"executions": 0, "states": 0, "transitions": 0, "validated": 0, "overlapping_executions": 0, "cancelled_executions": 0,
           "continuations_checked": 0, "distinct_outcomes": set(), "viol": [], "complete": True}
    info0 = {"engine": "E2-aio", "prop": "C11", "part": "api", "scenario": scenario}
    cont_cache = {}

    def on_execution(env, w, info):
        res["executions"] += 1
        trace = list(info["trace"])
        rp = dict(info0, trace=[list(t) if isinstance(t, tuple) else t for t in trace])

        def bad(sig, what):
            if not any(v[0] == sig for v in res["viol"]):
                res["viol"].append((sig, what + f" | schedule {trace}", rp))

        if info["outcome"] != "done":
            # a cancelled request may leave the retry arrival gated for ever only if A was never cancelled: then retry is not required
            unfinished = [u for u in env.unfinished() if not (u in ("retry", "cancelA"))]
            if info["outcome"] != "stuck" or unfinished:
                bad(f"snapshot-api:not-completed:{info['outcome']}", f"execution ended as {info['outcome']}; unfinished {env.unfinished()}")
                return
        if _text(env.results.get("t1")) != ref["t1"]:
            bad("snapshot-api:first-turn", f"turn 1 replied {_text(env.results.get('t1'))!r}")
            return
        first_ext = next((i for i, t in enumerate(trace) if t[0] == "ext"), len(trace))
        if sum(1 for i, t in enumerate(trace) if t[0] == "start" and t[1] in reqs + ("retry",) and i < first_ext) >= 2:
            res["overlapping_executions"] += 1   # two requests were under way before the first LLM answer arrived
        if env.results.get("A") == ("cancelled",):
            res["cancelled_executions"] += 1
        outcome = []
        for r in reqs + (("retry",) if cancel else ()):
            got = env.results.get(r)
            if got is None or got == ("cancelled",):
                outcome.append((r, None))
                continue
            txt = _text(got)
            outcome.append((r, txt))
            if txt != ref["b"]:
                bad(f"snapshot-api:reply-differs-from-fresh-restore:{scenario}",
                    f"request {r} continued the snapshot of turn 1 with 'b' and replied {txt!r}; a fresh instance restoring the same snapshot replies {ref['b']!r}")
                continue
            st = _state(got)
            key = st["state"] if isinstance(st, dict) else repr(st)
            if key not in cont_cache:
                cont_cache[key] = _text(alone("fresh", msg("c"), st))
                res["continuations_checked"] += 1
            if cont_cache[key] != ref["c"]:
                bad(f"snapshot-api:returned-state-continues-differently:{scenario}",
                    f"the state returned to request {r} continued with 'c' replies {cont_cache[key]!r}, expected {ref['c']!r}")
        res["distinct_outcomes"].add(tuple(outcome))

    def observe(env, w):
        return tuple(sorted((k, _text(v)) for k, v in env.results.items()))

    ex = aio.Explorer(make_factory(scenario), on_execution, observe=observe, max_choices=600, max_deviations=max_dev,
                      validate_mod=7, deadline=time.time() + budget_s, stop_when_done=False)
    st = ex.run()
    for k in ("states", "transitions", "validated"):
        res[k] = st[k]
    res["complete"] = st["complete"]
    res["bound_pruned"] = st["bound_pruned"]
    res["distinct_outcomes"] = len(res["distinct_outcomes"])
    return res


def replay(rp):
    make = make_factory(rp["scenario"])
    env = aio.Env(granularity="quiescence")
    w = make(env)
    env.settle()
    for lab in rp["trace"]:
        lab = tuple(lab) if isinstance(lab, list) else lab
        if lab not in env.enabled():
            print("choice", lab, "not enabled; enabled:", env.enabled())
            break
        env.take(lab)
        env.settle()
    print("results:", {k: _text(v) for k, v in env.results.items()}, "| reference:", reference())
    print(rp.get("what", ""))
    return 0
