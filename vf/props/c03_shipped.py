"""C03 - worlds over the SHIPPED Colang 2.x library rails.

Every rail of `nemoguardrails/library/*/flows.co` that can be configured as an input / output rail and really
runs an action is listed in SHIPPED with the import that brings it in, the flow call, the name of the action it
awaits and the shape of that action's result.  A world configures one shipped input rail (or the stub rail `in1`)
and one shipped output rail (or the stub rail `out1`); only the ACTIONS are replaced - by stubs that follow the
verdict script of the world and log every invocation - the flows are the library's.

Not listed (stated, not hidden):
  * `self check hallucination`, `hallucination warning`, `self check facts`, `alignscore check facts`,
    `gotitai rag truthcheck`, `autoalign factcheck output`: opt-in per message through a flag variable that the
    flow reads before its `global` statement - in Colang 2.x the flag is then always the flow-local None and the
    action is never started, so there is no action call site to fault;
  * `cleanlab trustworthiness`: a warning rail - its verdict "untrustworthy" still utters the bot message;
  * `mask sensitive data on ...`: rewriting rails, they guard nothing.
"""
from __future__ import annotations

import os

from vf.engines.world import World
from vf.props import railsworld as rw


def _allowed(ok):
    return {"allowed": ok, "policy_violations": [] if ok else ["S1"]}


# key -> (imports, flow call, kind, action name, result(ok: bool), style)
#   style "allow": the flow asks "is it allowed?"; "deny": the flow asks "is it bad?"
SHIPPED = {
    "self-check-input": (("nemoguardrails.library.self_check.input_check",), "self check input", "input",
                         "SelfCheckInputAction", lambda ok: ok, "allow"),
    "llama-guard-check-input": (("nemoguardrails.library.llama_guard",), "llama guard check input", "input",
                                "LlamaGuardCheckInputAction", _allowed, "allow"),
    "content-safety-check-input": (("nemoguardrails.library.content_safety",), 'content safety check input $model="verif"', "input",
                                   "ContentSafetyCheckInputAction", _allowed, "allow"),
    "jailbreak-heuristics": (("nemoguardrails.library.jailbreak_detection",), "jailbreak detection heuristics", "input",
                             "JailbreakDetectionHeuristicsAction", lambda ok: not ok, "deny"),
    "detect-sensitive-data-on-input": (("nemoguardrails.library.sensitive_data_detection", "nemoguardrails.library.hallucination"),
                                       "detect sensitive data on input", "input", "DetectSensitiveDataAction", lambda ok: not ok, "deny"),
    "activefence-moderation": (("nemoguardrails.library.activefence",), "activefence moderation", "input",
                               "CallActivefenceApiAction", lambda ok: {"max_risk_score": 0.0 if ok else 1.0, "violations": {}}, "deny"),
    "autoalign-check-input": (("nemoguardrails.library.autoalign",), "autoalign check input", "input",
                              "AutoalignInputApiAction", lambda ok: {"guardrails_triggered": not ok, "combined_response": "", "pii_fast": None}, "deny"),
    "self-check-output": (("nemoguardrails.library.self_check.output_check",), "self check output", "output",
                          "SelfCheckOutputAction", lambda ok: ok, "allow"),
    "llama-guard-check-output": (("nemoguardrails.library.llama_guard",), "llama guard check output", "output",
                                 "LlamaGuardCheckOutputAction", _allowed, "allow"),
    "content-safety-check-output": (("nemoguardrails.library.content_safety",), 'content safety check output $model="verif"', "output",
                                    "ContentSafetyCheckOutputAction", _allowed, "allow"),
    "detect-sensitive-data-on-output": (("nemoguardrails.library.sensitive_data_detection", "nemoguardrails.library.hallucination"),
                                        "detect sensitive data on output", "output", "DetectSensitiveDataAction", lambda ok: not ok, "deny"),
    "patronus-lynx-check-output-hallucination": (("nemoguardrails.library.patronusai", "nemoguardrails.library.hallucination"),
                                                 "patronus lynx check output hallucination", "output",
                                                 "PatronusLynxCheckOutputHallucinationAction", lambda ok: {"hallucination": not ok, "reasoning": "r"}, "deny"),
    "autoalign-check-output": (("nemoguardrails.library.autoalign",), "autoalign check output", "output",
                               "AutoalignOutputApiAction", lambda ok: {"guardrails_triggered": not ok, "pii_fast": {"guarded": False, "response": ""}}, "deny"),
}
INPUTS = [k for k, s in SHIPPED.items() if s[2] == "input"]
OUTPUTS = [k for k, s in SHIPPED.items() if s[2] == "output"]
STUB = "-"
# replies with which a shipped rail refuses (`bot refuse to respond`, `bot inform answer unknown`)
REFUSALS = {rw.LIB_REFUSAL, "I don't know the answer to that."}


def railset(inkey, outkey):
    return f"ship:{inkey}|{outkey}"


def parse(rs):
    a, b = rs[5:].split("|")
    return a, b


def same_library(inkey, outkey):
    return SHIPPED[inkey][0][0].split(".")[2] == SHIPPED[outkey][0][0].split(".")[2]


def worlds(tier):
    """quick: every shipped rail with the stub rail on the other side + the input/output pairs that one library
    ships together; thorough: the full product (shipped or stub input rail) x (shipped or stub output rail)."""
    ws = [(i, STUB) for i in INPUTS] + [(STUB, o) for o in OUTPUTS]
    pairs = [(i, o) for i in INPUTS for o in OUTPUTS]
    ws += [p for p in pairs if tier == "thorough" or same_library(*p)]
    return ws


def slug(rs, failed_sites):
    """names the shipped rail(s) whose action failed; a failure elsewhere in a shipped world names the world"""
    inkey, outkey = parse(rs)
    hit = [k for site, k in (("in1", inkey), ("out1", outkey)) if site in failed_sites and k != STUB]
    return "+".join(hit) if hit else f"world({inkey}|{outkey})"


def build(inkey, outkey, exceptions, main):
    specs = [SHIPPED[k] for k in (inkey, outkey) if k != STUB]
    imports = sorted({i for s in specs for i in s[0]})
    colang = "import core\nimport guardrails\n" + "".join(f"import {i}\n" for i in imports)
    colang += rw.v2_rail("in1", "input") + rw.v2_rail("out1", "output")
    inflow = SHIPPED[inkey][1] if inkey != STUB else "in1 $input_text"
    outflow = SHIPPED[outkey][1] if outkey != STUB else "out1 $output_text"
    colang += f"\nflow input rails $input_text\n  {inflow}\n\nflow output rails $output_text\n  {outflow}\n" + main
    yaml = 'colang_version: "2.x"\n' + ("enable_rails_exceptions: True\n" if exceptions else "")
    # the import path of the shipped rails is resolved relative to the directory that holds the package
    import nemoguardrails
    cwd = os.getcwd()
    os.chdir(os.path.dirname(os.path.dirname(os.path.abspath(nemoguardrails.__file__))))
    try:
        w = World(colang, yaml)
    finally:
        os.chdir(cwd)
    w.rails.register_action(w._rail_action, name="VerifRailAction")
    w.rails.register_action(w._dialog_action, name="VerifLookupAction")
    by_action = {}
    for key, rail, var in ((inkey, "in1", "user_message"), (outkey, "out1", "bot_message")):
        if key != STUB:
            by_action.setdefault(SHIPPED[key][3], {})[SHIPPED[key][2]] = (rail, var, SHIPPED[key][4])

    def stub(sides):
        async def action(source=None, context=None, **kw):
            # one action may serve both directions (DetectSensitiveDataAction(source="input" | "output"))
            rail, var, result = sides[source] if source in sides else next(iter(sides.values()))
            r = w._rail_sync(rail, (context or {}).get(var))
            return None if r is None else result(r is not False)      # (an injected `None` result stays None)
        return action

    for name, sides in by_action.items():
        w.rails.register_action(stub(sides), name=name)
    return w
