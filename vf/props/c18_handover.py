"""C18, mode "handover": the buffered hand-over of the single-LLM-call streaming path, at handler level.

generation.py gives the LLM a private StreamingHandler in buffering mode, waits for the first k non-empty
lines (`wait_top_k_nonempty_lines`), and then installs pattern, pipe and stop sequence and flushes the
buffer (`disable_buffering`).  Which token completes line k+1 - and therefore how much of the bot message
is already in the buffer at that moment - depends on the chunking.  This mode puts exactly that protocol
into the explicit-state search of c18.py:

  text        head + body; head = the two intent lines, body = what the statement calls the LLM output text
  protocol    NOT hard-coded: the operations performed on the inner handler before the first token and at the
              hand-over are RECORDED from a real LLMRails request (c18_rails.record_protocol) and replayed
              here verbatim, so the model follows the library when generation.py changes
  transition  on_llm_new_token(chunk) on the inner handler; when that call set `top_k_nonempty_lines_event`
              the hand-over runs at once (the waiting coroutine is the next thing the loop runs; tokens arrive
              only when the loop is idle): the part of `wait_top_k_nonempty_lines` behind its await, then the
              recorded operations
  end         on_llm_end on the inner handler, then push_chunk(None) on the caller's handler (what
              LLMRails.generate_async does when the request is over)
  observed    what the caller's handler delivers, completion of the inner handler (it becomes the BotMessage),
              completion of the caller's handler
  binding     from-scratch replays on a real asyncio loop with a real waiting task, and the same token lists
              through a real LLMRails request (must agree, else harness error)
"""
from __future__ import annotations

import asyncio

from vf.props import c18
from vf.props.c18_rails import HEAD as RAILS_HEAD
from vf.props.c18_rails import body_of as _body_of

PROTO = None     # set by c18.run() before the worker pool forks (or by replay)

HEADS = (RAILS_HEAD, "  g\r\nbot g\r\n", "g\n\n# c\nbot g\n")
ALPHABETS = {
    "handover": ["a", '"', " ", "\n"],
    # line separators other than \n inside the bot message
    "handover:sep": ["a", '"', "\n", "\r", "\u2028"],
}


def proto():
    if PROTO is None:
        raise RuntimeError("HARNESS: the hand-over protocol was not recorded")
    return PROTO


def alphabet(mode):
    return ALPHABETS[mode]


def body_of(text):
    return _body_of(text, proto()["k"])


def _apply(rig_run, h, outer, op):
    """one recorded operation on handler h; rig_run(coro, where) runs a coroutine"""
    if op[0] == "set":
        v = op[2]
        if isinstance(v, list):
            v = [outer if x == "<caller>" else x for x in v]
        elif v == "<caller>":
            v = outer
        setattr(h, op[1], v)
        return None
    _c, name, args, kw = op
    args = [outer if a == "<caller>" else a for a in args]
    kw = {k: (outer if v == "<caller>" else v) for k, v in kw.items()}
    r = getattr(h, name)(*args, **kw)
    if asyncio.iscoroutine(r):
        return rig_run(r, name)
    return r


class HandoverRig(c18.Rig):
    def __init__(self, cfg, mode):
        super().__init__(cfg, "langchain")
        self.mode = mode
        self.outer = c18.lib()["SH"]()
        self.proto = proto()
        self._handed_now = False
        if tuple(cfg) != cfg_of_proto():
            raise RuntimeError(f"HARNESS: task configuration {cfg!r} is not the recorded one {cfg_of_proto()!r}")

    # the pipe is part of the hand-over: before it the inner handler has none
    def _load(self, state):
        self._restore(self.h, state[c18.S_SNAP])
        self._restore(self.outer, state[c18.S_OUTER])
        self.h.pipe_to = self.outer if self.h.__dict__.get("_vf_piped") else None

    def handed(self, state):
        return bool(self.field(state[c18.S_SNAP], "_vf_handed"))

    def _token(self, text):
        c = self._chunks.get(text)
        if c is None:
            c = self._chunks[text] = c18.lib()["GC"](text=text)
        return c

    def _deliver(self, chunk):
        return self.h.on_llm_new_token(chunk, chunk=self._token(chunk), run_id=None)

    def _site(self, psnap, is_end):
        if self._handed_now:
            return "handover-flush"
        if not self.field(psnap, "_vf_handed"):
            return "buffering"
        return super()._site(psnap, is_end)

    def initial_states(self):
        L = c18.lib()
        fresh = L["SH"]()
        for op in self.proto["pre"]:
            _apply(self._run, fresh, self.outer, op)
        # the part of wait_top_k_nonempty_lines before its await (it announces k), run for real
        async def announce():
            t = asyncio.ensure_future(fresh.wait_top_k_nonempty_lines(self.proto["k"]))
            await asyncio.sleep(0)
            if t.done():
                raise RuntimeError("HARNESS: wait_top_k_nonempty_lines did not wait for its event")
            t.cancel()
            try:
                await t
            except asyncio.CancelledError:
                pass

        _loop().run_until_complete(announce())
        fresh.top_k_nonempty_lines_event = asyncio.Event()   # without the abandoned waiter / loop binding
        fresh._vf_handed = False
        fresh._vf_piped = False
        init = (self._snap(fresh), "", False, False, c18.NO_LABELS, self._snap(L["SH"]()))
        out = {init: ()}
        self._load(init)
        self._handed_now = False
        self._run(self._deliver(""), "on_llm_new_token('')")
        out.setdefault(self._after(init, "", False), ("",))
        return out

    def _handover(self):
        """The hand-over is ONE stretch of a task that never yields: the rest of wait_top_k_nonempty_lines, the
        recorded operations, `wait()`.  Tasks created meanwhile (the piped pushes) run when that task yields - in
        `wait()` if the stream is not finished yet.  If the flush itself finished the stream, `wait()` returns at
        once and the request runs on to its end without yielding: the caller's handler is closed (push_chunk(None))
        BEFORE the piped chunks reach it (bound to the library by the replays through LLMRails)."""
        from asyncio import events

        h = self.h
        loop = self.loop
        where = ["wait_top_k_nonempty_lines"]

        def run(coro, name):
            where[0] = name
            self.calls += 1
            c18._step(coro)

        events._set_running_loop(loop)
        try:
            run(h.wait_top_k_nonempty_lines(self.proto["k"]), "wait_top_k_nonempty_lines")
            for op in self.proto["handover"]:
                _apply(run, h, self.outer, op)
            if h.streaming_finished_event.is_set():
                run(self.outer.push_chunk(None), "caller.push_chunk(None)")
            while loop.ready:
                c18._step(loop.ready.pop(0))
        except RuntimeError as e:
            if str(e).startswith("HARNESS"):
                raise
            raise c18.HandlerRaised(e, where[0])
        except Exception as e:  # noqa - the implementation raised: an observation
            raise c18.HandlerRaised(e, where[0])
        finally:
            events._set_running_loop(None)
            for c in loop.ready:
                c.close()
            del loop.ready[:]
        h._vf_handed = True
        h._vf_piped = h.pipe_to is self.outer

    def step(self, state, chunk):
        self._load(state)
        self._handed_now = False
        self._run(self._deliver(chunk), "on_llm_new_token")
        if not self.h._vf_handed and self.h.top_k_nonempty_lines_event.is_set():
            self._handed_now = True
            self._handover()
        try:
            return self._after(state, chunk, False)
        finally:
            self._handed_now = False

    def finish(self, state, end):
        self._load(state)
        self._handed_now = False
        if not self.h._vf_handed:
            raise RuntimeError("HARNESS: end of the LLM output before the hand-over")
        if end == "empty_token+llm_end":
            self._run(self._deliver(""), "on_llm_new_token('')")
            state = self._after(state, "", True)
            self._load(state)
        self._run(self.h.on_llm_end(c18.lib()["RES"], run_id=None), "on_llm_end")
        state = self._after(state, "", True)
        self._load(state)
        self._run(self.outer.push_chunk(None), "caller.push_chunk(None)")
        s = self._after(state, "", True)
        comp = self.field(s[c18.S_SNAP], "completion")
        return (s[c18.S_DELIV], comp, s[c18.S_ENDED], s[c18.S_LATE], self.field(s[c18.S_OUTER], "completion")), s[c18.S_MON]


def cfg_of_proto():
    from vf.props.c18_rails import config_of

    return config_of(proto())


# ------------------------------------------------------------------ from scratch, real loop, real waiting task
async def _real(chunks, end):
    L = c18.lib()
    p = proto()
    inner, outer = L["SH"](), L["SH"]()
    got = []
    flags = {"handed": False}

    async def run(coro, _where):
        return await coro

    async def apply(op):
        if op[0] == "set":
            _apply(None, inner, outer, op)
            return
        _c, name, args, kw = op
        args = [outer if a == "<caller>" else a for a in args]
        kw = {k: (outer if v == "<caller>" else v) for k, v in kw.items()}
        r = getattr(inner, name)(*args, **kw)
        if asyncio.iscoroutine(r):
            await r

    async def consume():
        async for ch in outer:
            got.append(ch)

    async def waiter():
        await inner.wait_top_k_nonempty_lines(p["k"])
        for op in p["handover"]:
            await apply(op)
        flags["handed"] = True
        if inner.streaming_finished_event.is_set():
            # wait() returns at once and the request runs on to its end without yielding
            await outer.push_chunk(None)

    async def settle():
        for _ in range(6):
            await asyncio.sleep(0)

    consumer = asyncio.create_task(consume())
    for op in p["pre"]:
        await apply(op)
    wt = asyncio.create_task(waiter())
    try:
        await settle()
        for c in chunks:
            await inner.on_llm_new_token(c, chunk=L["GC"](text=c), run_id=None)
            await settle()
        if end == "empty_token+llm_end":
            await inner.on_llm_new_token("", chunk=L["GC"](text=""), run_id=None)
            await settle()
        await inner.on_llm_end(L["RES"], run_id=None)
        await settle()
        if flags["handed"]:
            await outer.push_chunk(None)
            await settle()
        ended = consumer.done()
    finally:
        for t in (consumer, wt):
            if not t.done():
                t.cancel()
                try:
                    await t
                except asyncio.CancelledError:
                    pass
    for t in (consumer, wt):
        if t.done() and not t.cancelled() and t.exception() is not None:
            raise t.exception()
    leftover = []
    while not outer.queue.empty():
        leftover.append(outer.queue.get_nowait())
    return {
        "delivered": "".join(x if isinstance(x, str) else repr(x) for x in got),
        "delivered_chunks": got,
        "completion": inner.completion,
        "ended": ended,
        "late": any(x is not None and x != "" for x in leftover),
        "outer_completion": outer.completion,
        "handed": flags["handed"],
    }


_RLOOP = None


def _loop():
    global _RLOOP
    if _RLOOP is None or _RLOOP.is_closed():
        _RLOOP = asyncio.new_event_loop()
    return _RLOOP


def run_real(cfg, mode, chunks, end):
    return _loop().run_until_complete(_real(list(chunks), end))


class Disagree(Exception):
    """the real LLMRails request and the handler-level replay of the same tokens differ"""

    def __init__(self, msg, outcome, obs):
        super().__init__(msg)
        self.outcome, self.obs = outcome, obs


def confirm_through_llmrails(cfg, chunks, r):
    """the same tokens through LLMRails.generate_async with a streaming handler: what the caller's handler delivers
    and its completion must be what the handler-level replay `r` gave; the response text must be the inner
    handler's completion"""
    from vf.props import c18_rails as R

    obs, outcome, _tr = R.run_default({"r": list(chunks)})
    o = obs["r"]
    if outcome != "done" or o[0] != "ok" or (o[1], o[2], o[3]) != (r["delivered"], r["outer_completion"], r["completion"]):
        raise Disagree(
            f"HARNESS: handler-level hand-over model and LLMRails disagree for tokens {chunks!r}: model delivered "
            f"{r['delivered']!r} completion {r['completion']!r} caller's completion {r['outer_completion']!r}; LLMRails {outcome} {o!r}",
            outcome, o)


# ------------------------------------------------------------------ tasks
def bounds(tier):
    """max symbols of the body behind the configured prefix / of a free body, per alphabet"""
    if tier == "quick":
        return {"handover": (6, 4), "handover:sep": (4, 3)}
    return {"handover": (8, 5), "handover:sep": (6, 4)}


def tasks(tier):
    cfg = cfg_of_proto()
    out = []
    val_mod = 23 if tier == "quick" else 307
    for hi, head in enumerate(HEADS):
        for mode, (n_pref, n_free) in bounds(tier).items():
            if hi:
                if mode != "handover":
                    continue
                n_pref, n_free = n_pref - 1, n_free - 1
            syms = alphabet(mode)
            for lead, n in ((head, n_free), (head + (cfg[0] or ""), n_pref)):
                if lead == head and not cfg[0]:
                    continue
                sp = min(2, n)
                out.append((cfg, mode, lead, (), sp - 1, 0, val_mod, head))
                import itertools

                for root in itertools.product(syms, repeat=sp):
                    out.append((cfg, mode, lead, tuple(root), n, sp - 1, val_mod, head))
    return out
