"""C16, text-shape family: rails-only calls whose user text / supplied bot message / rewritten text has a SHAPE that
collides with a convention of the library itself - `$name` means "context variable" in action parameters and in
`create event X(field=$name)`, the empty string is falsy, `...` is the generation placeholder, `None`/`True`/`False`
are rail results.  The statement quantifies over all user/bot texts: the text is data, whatever it looks like.

Enumeration: every shape of SHAPES x every position the text can take in a rails-only call
  user        - the user message (input only; input+output with an ordinary supplied bot message)
  user-prompt - the same, passed as `prompt=` instead of `messages=`
  bot         - the supplied bot message (output only; input+output)
  rewritten   - the text an input / output rail rewrites an ordinary text INTO
x verdicts {all accept, second rail rejects}.  Oracle = the table of the sequential part: rails invoked in order with
exactly that text, reply = the text (or the refusal), no LLM call, log = the rails that ran, stop on the rejecting rail.
"""
from __future__ import annotations

from vf.props import railsworld as rw

IN_ORDER = ("in1", "in2")
OUT_ORDER = ("out1", "out2")

# (class, text).  The context-variable names are the ones llm_flows.co / the runtime keep in the flat Colang 1.0 context
SHAPES = [
    ("starts-with-dollar", "$100 is too much for a ticket"),
    ("starts-with-dollar", "$5 each, $20 for the set."),
    ("starts-with-dollar", "$"),
    ("starts-with-dollar", "$ 5"),
    ("starts-with-dollar", "$$"),
    ("starts-with-dollar", "$HOME"),
    ("starts-with-dollar", "$x.y"),
    ("starts-with-dollar", "$1"),
    ("names-a-context-variable", "$user_message"),
    ("names-a-context-variable", "$bot_message"),
    ("names-a-context-variable", "$last_user_message"),
    ("names-a-context-variable", "$last_bot_message"),
    ("names-a-context-variable", "$config"),
    ("names-a-context-variable", "$generation_options"),
    ("names-a-context-variable", "$i"),
    ("names-a-context-variable", "$r"),
    ("names-a-context-variable", "$event"),
    ("names-a-context-variable", "$input_flows"),
    ("names-a-context-variable", "$output_flows"),
    ("names-a-context-variable", "$triggered_input_rail"),
    ("names-a-context-variable", "$triggered_output_rail"),
    ("names-a-context-variable", "$skip_output_rails"),
    ("names-a-context-variable", "$relevant_chunks"),
    ("empty-or-blank", ""),
    ("empty-or-blank", " "),
    ("empty-or-blank", "\n"),
    ("empty-or-blank", "\t "),
    ("literal-of-the-language", "None"),
    ("literal-of-the-language", "True"),
    ("literal-of-the-language", "False"),
    ("literal-of-the-language", "..."),
    ("literal-of-the-language", "0"),
    ("literal-of-the-language", '"quoted"'),
    ("literal-of-the-language", "  two leading blanks"),
]


def make_world(dialog_world):
    from vf.props.c16 import RET, RET_YAML
    return rw.World(
        "".join(rw.v1_rail(r, "input") for r in IN_ORDER) + "".join(rw.v1_rail(r, "output") for r in OUT_ORDER)
        + (rw.V1_DIALOG if dialog_world else "") + RET,
        "rails:\n  input:\n    flows: [in1, in2]\n  output:\n    flows: [out1, out2]\n" + RET_YAML,
    )


def cases_for(text):
    """-> [(position, subset, reject?)] for one shape text"""
    out = []
    for rej in (False, True):
        out.append(("user", ("input",), rej))
        out.append(("user", ("input", "output"), rej))
        out.append(("bot", ("output",), rej))
        out.append(("bot", ("input", "output"), rej))
    if text:
        out.append(("user-prompt", ("input",), False))     # prompt="" is "no prompt" for the API: not a text
        # a rail can only rewrite into a truthy text (`if not $r` is the rejection test of the rails)
        out.append(("rewritten-user", ("input",), False))
        out.append(("rewritten-bot", ("output",), False))
        out.append(("rewritten-bot", ("input", "output"), False))
    return out


def run_case(world, text, position, subset, rej, nonce):
    """one rails-only call -> (turn, expectation dict)"""
    sel = set(subset)
    plain_user, plain_bot = f"U{nonce}q hello", f"B{nonce}q supplied answer"
    user = text if position in ("user", "user-prompt") else plain_user
    bot = text if position == "bot" else plain_bot
    verdicts = {"ret1": "A"}
    exp_in, exp_out = [], []
    reply = None
    rejected = None
    if "input" in sel:
        if position == "rewritten-user":
            verdicts["in1"] = ("W", text)
            exp_in = [("in1", user), ("in2", text)]
            cur_user = text
        else:
            exp_in = [("in1", user), ("in2", user)]
            cur_user = user
        if rej and position == "user":
            verdicts["in2"] = "R"
            rejected = "in2"
        reply = cur_user
    if "output" in sel and not rejected:
        if position == "rewritten-bot":
            verdicts["out1"] = ("W", text)
            exp_out = [("out1", bot), ("out2", text)]
            cur_bot = text
        else:
            exp_out = [("out1", bot), ("out2", bot)]
            cur_bot = bot
        if rej and position == "bot":
            verdicts["out2"] = "R"
            rejected = "out2"
        reply = cur_bot
    if rejected:
        reply = f"REFUSED-{rejected}"
    options = {"rails": list(subset), "log": {"activated_rails": True}}
    world.rails.events_history_cache.clear()    # the shapes are fixed texts: no aliasing through the instance's events cache (C15's subject)
    if position == "user-prompt":
        world.verdicts = dict(verdicts)
        world.llm_fn = lambda task, prompt, i: "UNEXPECTED-LLM-CALL"
        world.faults = set()
        m = world.mark()
        r, exc = world.generate(prompt=user, options=options)
        calls, acts = world.since(m)
        turn = rw.Turn(r, exc, calls, acts)
    else:
        msgs = [{"role": "user", "content": user}]
        if "output" in sel:
            msgs.append({"role": "assistant", "content": bot})
        turn = rw.run_turn(world, msgs, verdicts, lambda task, prompt, i: "UNEXPECTED-LLM-CALL", options=options)
    log = [("input", r, r == rejected) for r, _ in exp_in] + [("output", r, r == rejected) for r, _ in exp_out]
    return turn, {"in": exp_in, "out": exp_out, "reply": reply, "log": log, "rejected": rejected}


def judge(turn, exp):
    """-> [(signature stem, what)]"""
    out = []
    if turn.exc is not None:
        return [("generate-raised", repr(turn.exc))]
    in_calls = [(a["rail"], a["text"]) for a in turn.actions if a.get("rail") in rw.IN_RAILS]
    out_calls = [(a["rail"], a["text"]) for a in turn.actions if a.get("rail") in rw.OUT_RAILS]
    if in_calls != exp["in"]:
        out.append(("input-rail-sequence", f"rails invoked {in_calls}, expected {exp['in']}"))
    if out_calls != exp["out"]:
        out.append(("output-rail-sequence", f"rails invoked {out_calls}, expected {exp['out']}"))
    if any(a.get("rail") == "ret1" for a in turn.actions):
        out.append(("unselected-retrieval-rails-ran", "retrieval rail ran"))
    if turn.llm_calls:
        out.append(("llm-generation-without-dialog", f"LLM tasks {[str(c['task']) for c in turn.llm_calls]}"))
    if turn.text != exp["reply"]:
        out.append(("reply-is-not-the-refusal" if exp["rejected"] else "reply-is-not-the-text", f"expected {exp['reply']!r}, got {turn.text!r}"))
    log = getattr(turn.reply, "log", None)
    ar = getattr(log, "activated_rails", None) if log is not None else None
    if ar is None:
        out.append(("no-activated-rails-log", "log.activated_rails missing"))
    else:
        got = [(r.type, r.name, bool(r.stop)) for r in ar if r.type in ("input", "output")]
        if got != exp["log"]:
            out.append(("log-activated-rails", f"log {got}, expected {exp['log']}"))
    return out


def explore(task):
    _tag, dialog_world, lo, hi = task
    res = {"evaluations": 0, "rails_only_cases": 0, "blocked_cases": 0, "rewritten_cases": 0, "text_shape_cases": 0, "viol": []}
    world = make_world(dialog_world)
    seen = set()
    n = 0
    for cls, text in SHAPES[lo:hi]:
        for position, subset, rej in cases_for(text):
            n += 1
            turn, exp = run_case(world, text, position, subset, rej, f"{lo}x{n}")
            res["evaluations"] += 1
            res["text_shape_cases"] += 1
            if "sample" not in res and turn.exc is None:
                res["sample"] = {"family": "text-shape", "text": text, "position": position, "subset": list(subset), "second_rail_rejects": rej,
                                 "observed_reply": turn.text, "rails_invoked": [[a.get("rail"), a["text"]] for a in turn.actions]}
            if exp["rejected"]:
                res["blocked_cases"] += 1
            else:
                res["rails_only_cases"] += 1
            if position.startswith("rewritten"):
                res["rewritten_cases"] += 1
            # the first failing line of the table names the case (the later ones are its consequences)
            for stem, what in judge(turn, exp)[:1]:
                sig = f"{stem}:text-shape:{cls}:as-{position}"
                if sig in seen:
                    continue
                seen.add(sig)
                info = {"engine": "E3-world", "prop": "C16", "part": "text-shape", "dialog_world": dialog_world, "text": text, "shape_class": cls,
                        "position": position, "subset": list(subset), "reject": rej}
                res["viol"].append((sig, f"text {text!r} as {position}, rails {list(subset)}: {what}", info))
    return res


def tasks():
    n = len(SHAPES)
    cut = [0, n // 3, 2 * n // 3, n]
    return [("text-shapes", dw, cut[i], cut[i + 1]) for dw in (False, True) for i in range(3)]


def replay(rp):
    world = make_world(rp["dialog_world"])
    turn, exp = run_case(world, rp["text"], rp["position"], tuple(rp["subset"]), rp["reject"], "replay")
    print("text", repr(rp["text"]), "as", rp["position"], "| options rails", rp["subset"], "| second rail rejects:", rp["reject"])
    print("reply", repr(turn.text), "expected", repr(exp["reply"]), "| exception:", repr(turn.exc))
    print("rails invoked:", [(a.get("rail"), a["text"]) for a in turn.actions], "expected", exp["in"] + exp["out"], "| llm:", [str(c["task"]) for c in turn.llm_calls])
    log = getattr(turn.reply, "log", None)
    if log is not None:
        print("activated_rails:", [(r.type, r.name, r.stop) for r in log.activated_rails], "expected", exp["log"])
    for stem, what in judge(turn, exp):
        print("  ", stem, what)
    print(rp["what"])
    return 0
