"""C05 - competing flows: exactly one most-specific action wins per interaction loop.

Program family: n flows, each waiting on `match E(<mentioned params>)` and then starting
an action; competitor table = mention mask x action x loop x priority (x indirection).
All trigger events, two events deep (so competition also starts from non-initial states),
all outcomes of the random tie-break.
"""
from __future__ import annotations

import itertools

from vf.engines import v2x
from vf.engines.v2x import sm
from vf.engines.v2x import Explorer, Violation, sm
from nemoguardrails.colang.v2_x.runtime.flows import FlowStatus, FlowHeadStatus

PROP = "C05"
MASKS = [(), ("p1",), ("p2",), ("p1", "p2")]
ACTIONS = ["A", "B"]
LOOPS = ["L1", "L2"]
PRIOS = [None, 0.5]
WANT = {"p1": "a", "p2": "b"}
EVENTS = [("a", "b"), ("x", "b"), ("a", "y"), ("x", "y")]
N_EVENT_PARAMS = 3
# nested mode: event E(p1={"x": .., "y": ..}, p2=..); (pattern text, score = 0.9 per unmentioned entry on either level, mentioned entries)
NESTED = [
    ('p1={"x": "a"}', 0.81, ("x",)),
    ('p1={"x": "a", "y": "b"}', 0.9, ("x", "y")),
    ('p1={"x": "a"}, p2="c"', 0.9, ("x", "p2")),
    ('p1={"x": "a", "y": "b"}, p2="c"', 1.0, ("x", "y", "p2")),
]
NESTED_WANT = {"x": "a", "y": "b", "p2": "c"}


def competitor_space():
    return list(itertools.product(range(len(MASKS)), ACTIONS, LOOPS, PRIOS))


# ----------------------------------------------------------------------------- where a flow's loop comes from
# declaration forms of an interaction loop; the *effective* loop of a flow is the one its OWN definition declares
# (for an @override flow: the override's own decorators, nothing is taken over from the flow it replaces) or, without a
# declaration, the loop of the flow that started it
DECLS = {None: "", "L2": '@loop("L2")\n', "L2k": '@loop(id="L2")\n', "L3": '@loop("L3")\n', "NEW": '@loop("NEW")\n'}
OVER_DECLS = [None, "L2", "L3", "NEW"]
ARRANGEMENTS = [("after", "override-first"), ("before", "override-first"), ("after", "loop-first"), ("before", "loop-first")]


def loop_forms():
    forms = [("plain", d) for d in DECLS]
    forms += [("over", a, b, 0) for a in OVER_DECLS for b in OVER_DECLS]
    forms += [("parent", "L2"), ("parent", "NEW")]
    return forms


LOOP_FORMS_REDUCED = [("plain", None), ("plain", "L2"), ("over", "L2", None, 0), ("over", None, "L2", 0), ("plain", "NEW")]


def effective_loop(form, i, main_decl):
    d = form[2] if form[0] == "over" else form[1]
    if d is None:
        d = main_decl
    if d is None:
        return "L1"
    if d == "NEW":
        return f"NEW{i}"
    return "L2" if d == "L2k" else d


def _loopsrc_program(comps, main_decl, forms):
    out = []
    starts = []
    for i, ((mi, act, _loop, prio), form) in enumerate(zip(comps, forms)):
        args = ", ".join(f'{p}="{WANT[p]}"' for p in MASKS[mi])
        pr = f"  priority {prio}\n" if prio is not None else ""
        body = f"flow f{i}\n{pr}  match E({args})\n  start Act{act}Action()\n  match Done()\n"
        starts.append(f"f{i}")
        if form[0] == "plain":
            out.append(DECLS[form[1]] + body)
        elif form[0] == "parent":
            out.append(body)
            out.append(DECLS[form[1]] + f"flow s{i}\n  start f{i}\n  match Never()\n")
            starts[-1] = f"s{i}"
        else:
            _k, d_orig, d_over, arr = form
            where_, deco = ARRANGEMENTS[arr]
            # the replaced definition would react to the same event with an action of its own
            orig = DECLS[d_orig] + f"flow f{i}\n  match E({args})\n  start ActOrig{i}Action()\n  match Done()\n"
            over = ("@override\n" + DECLS[d_over] if deco == "override-first" else DECLS[d_over] + "@override\n") + body
            out += [orig, over] if where_ == "after" else [over, orig]
    main = DECLS[main_decl] + "flow main\n" + "".join(f"  start {f}\n" for f in starts) + "  match Never()\n"
    return "\n".join(out) + "\n" + main


# ----------------------------------------------------------------------------- competitors with a history
# what a competitor went through (one event earlier) before it waits for the contested event
PREFIXES = {
    None: ("", ""),
    "match": ("  match P()\n", ""),
    "match-or": ("  match P() or Q()\n", ""),
    "await": ("  await g{i}\n", "flow g{i}\n  match P()\n"),
    "await-or": ("  await g{i} or h{i}\n", "flow g{i}\n  match P()\n\nflow h{i}\n  match Q()\n"),
    "await-and": ("  await g{i} and h{i}\n", "flow g{i}\n  match P()\n\nflow h{i}\n  match P()\n"),
    "await-or-and": ("  await (g{i} and h{i}) or k{i}\n", "flow g{i}\n  match P()\n\nflow h{i}\n  match P()\n\nflow k{i}\n  match Q()\n"),
    "when-or": ("  when P()\n    $x = 1\n  or when Q()\n    $x = 2\n", ""),
}
PASSES_WITH_Q = {None, "match-or", "await-or", "await-or-and", "when-or"}


def _prefix_program(comps, forms):
    out = []
    for i, ((mi, act, loop, prio), form) in enumerate(zip(comps, forms)):
        args = ", ".join(f'{p}="{WANT[p]}"' for p in MASKS[mi])
        dec = f'@loop("{loop}")\n' if loop != "L1" else ""
        pr = f"  priority {prio}\n" if prio is not None else ""
        stmt, helpers = PREFIXES[form]
        if helpers:
            out.append(helpers.replace("{i}", str(i)))
        out.append(f"{dec}flow f{i}\n{pr}{stmt.replace('{i}', str(i))}  match E({args})\n  start Act{act}Action()\n  match Done()\n")
    main = "flow main\n" + "".join(f"  start f{i}\n" for i in range(len(comps))) + "  match Never()\n"
    return "\n".join(out) + "\n" + main


def program(comps, indirect):
    if isinstance(indirect, tuple) and indirect[0] == "loopsrc":
        return _loopsrc_program(comps, indirect[1], indirect[2])
    if isinstance(indirect, tuple) and indirect[0] == "prefix":
        return _prefix_program(comps, indirect[1])
    out = []
    for i, (mi, act, loop, prio) in enumerate(comps):
        args = ", ".join(f'{p}="{WANT[p]}"' for p in MASKS[mi])
        dec = f'@loop("{loop}")\n' if loop != "L1" else ""
        pr = f"  priority {prio}\n" if prio is not None else ""
        if indirect == "nested":
            # specificity inside a dict-valued parameter
            out.append(f"{dec}flow f{i}\n{pr}  match E({NESTED[mi][0]})\n  start Act{act}Action()\n  match Done()\n")
            continue
        if indirect in ("prio-twice", "prio-twice-2"):
            # one of the flows declares a priority more than once: the last declaration counts
            twice = (i % 2 == 0) if indirect == "prio-twice" else (i % 2 == 1)
            pr = (f"  priority 0.3\n  priority {prio if prio is not None else 1.0}\n" if twice else pr)
            out.append(f"{dec}flow f{i}\n{pr}  match E({args})\n  start Act{act}Action()\n  match Done()\n")
            continue
        if indirect == "or-group":
            # odd competitors reach their action through an or-group of matches (forked heads that merge)
            grp = f"E({args}) or Zzz{i}()" if i % 2 == 0 else f"E({args})"
            out.append(f"{dec}flow f{i}\n{pr}  match {grp}\n  start Act{act}Action()\n  match Done()\n")
        elif indirect == "or-group-2":
            grp = f"E({args}) or Zzz{i}()" if i % 2 == 1 else f"E({args})"
            out.append(f"{dec}flow f{i}\n{pr}  match {grp}\n  start Act{act}Action()\n  match Done()\n")
        elif indirect == "mixed" and i % 2 == 1 or indirect == "mixed-2" and i % 2 == 0:
            # this competitor reaches its action through an awaited sub-flow (longer score chain)
            out.append(f"flow g{i}\n{pr}  match E({args})\n")
            out.append(f"{dec}flow f{i}\n  await g{i}\n  start Act{act}Action()\n  match Done()\n")
        elif indirect in ("mixed", "mixed-2"):
            out.append(f"{dec}flow f{i}\n{pr}  match E({args})\n  start Act{act}Action()\n  match Done()\n")
        elif not indirect:
            out.append(f"{dec}flow f{i}\n{pr}  match E({args})\n  start Act{act}Action()\n  match Done()\n")
        elif indirect == "prio-in-wrapper":
            # the declared priority sits in the flow whose deciding match is on an *internal* event
            out.append(f"flow g{i}\n  match E({args})\n")
            out.append(f"{dec}flow f{i}\n{pr}  await g{i}\n  start Act{act}Action()\n  match Done()\n")
        else:
            out.append(f"flow g{i}\n{pr}  match E({args})\n")
            out.append(f"{dec}flow f{i}\n  await g{i}\n  start Act{act}Action()\n  match Done()\n")
    main = "flow main\n" + "".join(f"  start f{i}\n" for i in range(len(comps))) + "  match Never()\n"
    return "\n".join(out) + "\n" + main


def score(comp, indirect=False, idx=0):
    """score chain as a tuple (compared left to right).  Wrappers are structurally identical, so the
    score of their match on the internal Finished event is one common constant c > 0; only the
    declared priority of the wrapper scales it."""
    mi, act, loop, prio = comp
    if indirect == "nested":
        return (NESTED[mi][1] * (prio or 1.0),)
    s = 1.0
    s *= 0.9 ** (N_EVENT_PARAMS - len(MASKS[mi]))
    if indirect == "prio-in-wrapper":
        return (s, prio or 1.0)
    if indirect in ("mixed", "mixed-2"):
        # chains of different length are padded with 1.0; the wrapper's match on the internal Finished
        # event scores some c with 0 < c < 1 (it leaves event parameters unmentioned) - 0.5 stands for c
        if prio:
            s *= prio
        is_indirect = (idx % 2 == 1) if indirect == "mixed" else (idx % 2 == 0)
        return (s, 0.5) if is_indirect else (s, 1.0)
    if prio:
        s *= prio
    return (s,)


def fits(comp, ev):
    vals = {"p1": ev[0], "p2": ev[1]}
    return all(vals[p] == WANT[p] for p in MASKS[comp[0]])


def flow_of(state, i):
    lst = state.flow_id_states.get(f"f{i}", [])
    return lst[0] if len(lst) == 1 else None


def where(state, fs):
    """'E' waiting for the trigger, 'done' parked after its action, 'stopped', or other."""
    if fs.status == FlowStatus.STOPPED:
        return "stopped"
    if fs.status == FlowStatus.FINISHED:
        return "finished"
    cfg = state.flow_configs[fs.flow_id]
    heads = [h for h in fs.heads.values() if h.status != FlowHeadStatus.INACTIVE]
    if len(heads) == 2 and all(sm.is_match_op_element(cfg.elements[h.position]) for h in heads) and \
            {cfg.elements[h.position].spec.name for h in heads} - {"E"} and "E" in {cfg.elements[h.position].spec.name for h in heads}:
        return "E"  # or-group: one head per alternative, still waiting
    if len(heads) != 1:
        return f"heads={len(heads)}"
    el = cfg.elements[heads[0].position]
    if sm.is_match_op_element(el):
        name = el.spec.name
        if name == "Done":
            return "done"
        return "E"  # direct: match E ; indirect: match $ref.Finished()
    return type(el).__name__


def _at_match_E(state, fs):
    """exactly one live head, and it waits at `match E(...)`"""
    if fs.status != FlowStatus.STARTED:
        return False
    cfg = state.flow_configs[fs.flow_id]
    heads = [h for h in fs.heads.values() if h.status != FlowHeadStatus.INACTIVE]
    if len(heads) != 1:
        return False
    el = cfg.elements[heads[0].position]
    return sm.is_match_op_element(el) and el.spec.name == "E"


def explore(task):
    comps, indirect, depth = task
    src = program(comps, indirect)
    n = len(comps)
    events = [("ext", "E", {"p1": a, "p2": b, "p3": "c"}) for a, b in EVENTS]
    nested = indirect == "nested"
    if nested:
        events = [("ext", "E", {"p1": {"x": x, "y": y}, "p2": z}) for x in ("a", "q") for y in ("b", "q") for z in ("c", "q")]

    def fits_(comp, ev):
        if nested:
            return all(ev[k] == NESTED_WANT[k] for k in NESTED[comp[0]][2])
        return fits(comp, ev)

    prefix = indirect[1] if isinstance(indirect, tuple) and indirect[0] == "prefix" else None
    loops = sorted({c[2] for c in comps}) if isinstance(indirect, tuple) else LOOPS

    def alphabet(state, node):
        if node.depth == 0:
            return [("start_main",)]
        if prefix and node.depth == 1:
            return [("ext", "P", {}), ("ext", "Q", {})]
        return events

    class Mon:
        def __call__(self, ex, prev, aev, conc, taken, nxt, pops):
            if aev[0] == "start_main":
                nxt.aux["waiting"] = tuple(i for i in range(n) if not prefix or prefix[i] is None)
                for i in range(n):
                    fs = flow_of(nxt.state, i)
                    if fs is None or (where(nxt.state, fs) != "E" if i in nxt.aux["waiting"] else fs.status != FlowStatus.STARTED):
                        raise Violation("setup", f"flow f{i} not waiting after start", {})
                return
            if prefix and aev[1] in ("P", "Q"):
                # the earlier event: the competitors get past their first statement (no action, nobody fails) and
                # now wait for the contested event
                passed = tuple(i for i in range(n) if aev[1] == "P" or prefix[i] in PASSES_WITH_Q)
                for i in range(n):
                    fs = flow_of(nxt.state, i)
                    if fs is None or (not _at_match_E(nxt.state, fs) if i in passed else fs.status != FlowStatus.STARTED):
                        raise Violation("setup", f"flow f{i} ({prefix[i]}) not waiting for E after {aev[1]}", {})
                if nxt.state.outgoing_events:
                    raise Violation("setup", f"events after {aev[1]}: {[e['type'] for e in nxt.state.outgoing_events]}", {})
                nxt.aux["waiting"] = passed
                nxt.aux["notpassed"] = tuple(i for i in range(n) if i not in passed)
                if len(passed) >= 2 and any(prefix[i] is not None for i in passed):
                    ex.stats.bump("competitors_with_a_history_waiting")
                return
            waiting = prev.aux["waiting"]
            if prefix:
                # a competitor that did not get past its first statement does not react to E at all
                for i in prev.aux["notpassed"]:
                    fs = flow_of(nxt.state, i)
                    if fs is None or fs.status != FlowStatus.STARTED:
                        raise Violation("non-fitting-flow-touched", f"flow f{i} still waits for its first event but is now "
                                        f"{fs.status.name if fs else 'gone'}", {"event": aev[2]})
            ev = (aev[2]["p1"], aev[2]["p2"])
            if nested:
                ev = {"x": aev[2]["p1"]["x"], "y": aev[2]["p1"]["y"], "p2": aev[2]["p2"]}
            st = nxt.state
            starts = [e["type"] for e in st.outgoing_events if e["type"].startswith("StartAct")]
            others = [e["type"] for e in st.outgoing_events if not e["type"].startswith("StartAct")]
            fit = [i for i in waiting if fits_(comps[i], ev)]
            still = []
            expected_starts = []
            detail = {"event": ev, "fit": fit, "starts": starts, "taken": list(taken)}
            if len(fit) >= 2:
                ex.stats.bump("competitions")
                if isinstance(indirect, tuple):
                    same = max(sum(1 for i in fit if comps[i][2] == l) for l in loops) >= 2
                    ex.stats.bump(f"{indirect[0]}_steps_with_2_fitting_flows_in_{'one_loop' if same else 'different_loops'}")
            # untouched: everybody who was waiting and does not fit keeps waiting
            for i in waiting:
                if i not in fit:
                    fs = flow_of(st, i)
                    w = where(st, fs) if fs else "gone"
                    if w != "E":
                        raise Violation("non-fitting-flow-touched",
                                        f"flow f{i} did not fit {ev} but is now '{w}'", detail)
                    still.append(i)
            picked_actions = []
            for loop in loops:
                grp = [i for i in fit if comps[i][2] == loop]
                if not grp:
                    continue
                best = max(score(comps[i], indirect, i) for i in grp)
                argmax = [i for i in grp if score(comps[i], indirect, i) == best]
                ws = {i: where(st, flow_of(st, i)) if flow_of(st, i) else "gone" for i in grp}
                winners = [i for i in grp if ws[i] == "done"]
                losers = [i for i in grp if ws[i] == "stopped"]
                detail.update({f"{loop}_where": ws, f"{loop}_argmax": argmax})
                if len(winners) + len(losers) != len(grp):
                    raise Violation("competitor-in-unexpected-state",
                                    f"loop {loop}: every fitting flow either proceeds (parked after its action) or ends up failed (STOPPED): {ws}", detail)
                if not winners:
                    raise Violation("no-winner", f"loop {loop}: fitting flows {grp} but none proceeded ({ws})", detail)
                acts = {comps[i][1] for i in winners}
                if len(acts) != 1:
                    raise Violation("two-different-actions-proceed",
                                    f"loop {loop}: flows {winners} proceeded with different actions {sorted(acts)}", detail)
                act = acts.pop()
                if act not in {comps[i][1] for i in argmax}:
                    raise Violation("less-specific-flow-won",
                                    f"loop {loop}: action {act} won but most specific flows are {argmax} "
                                    f"(scores { {i: score(comps[i], indirect, i) for i in grp} })", detail)
                missing = [i for i in grp if comps[i][1] == act and i not in winners]
                if missing:
                    raise Violation("identical-action-flow-failed",
                                    f"loop {loop}: flows {missing} wanted the winning action {act} but failed", detail)
                expected_starts.append(f"StartAct{act}Action")
                picked_actions.append((loop, act))
                if len(argmax) >= 2 and len({comps[i][1] for i in argmax}) >= 2:
                    ex.stats.bump("exact_ties_with_distinct_actions")
                if len(winners) >= 2:
                    ex.stats.bump("shared_action_cowinners")
            if sorted(starts) != sorted(expected_starts):
                raise Violation("start-events-mismatch",
                                f"expected exactly one Start per competing loop {sorted(expected_starts)}, saw {sorted(starts)}", detail)
            if others:
                raise Violation("unexpected-outgoing-event", f"{others}", detail)
            nxt.aux["waiting"] = tuple(still)
            nxt.aux["_picked"] = tuple(picked_actions)

        def after_all(self, ex, node, aev, succ):
            if aev[0] != "ext" or len(succ) < 2:
                return
            ex.stats.bump("steps_with_several_tie_break_outcomes")
            outcomes = {s[1].aux.get("_picked") for s in succ}
            if len(outcomes) >= 2:
                ex.stats.bump("steps_where_tie_break_changed_winner")

    ex = Explorer(src, alphabet, monitors=[Mon()], depth=depth)
    ex.run()
    if isinstance(indirect, tuple):
        ex.stats.bump(f"{indirect[0]}_programs")
        # the later families name themselves in the signature (same oracle, different class of input)
        fam = {"loopsrc": "loop-source", "prefix": "history"}[indirect[0]]
        for v in ex.violations:
            v["signature"] = f"{fam}:{v['signature']}"
    return v2x.result_of(ex, {"competitors": [list(c) for c in comps], "indirect": indirect})


def tasks(tier):
    space = competitor_space()
    out = []
    depth = 3
    for pair in itertools.product(space, repeat=2):
        out.append((pair, False, depth))
    # indirect (awaited sub-flow) n=2, same-loop only variants reduced: priorities none
    red = [c for c in space if c[3] is None]
    for pair in itertools.product(red, repeat=2):
        out.append((pair, True, depth))
    # one competitor matches through an or-group (fork at start, merge on the event)
    for pair in itertools.product(space, repeat=2):
        out.append((pair, "or-group", depth))
        out.append((pair, "or-group-2", 2))
    # chains of different length: a direct competitor against one that goes through an awaited sub-flow
    redm = [c for c in space if c[2] == "L1" and c[3] is None]
    for pair in itertools.product(redm, repeat=2):
        out.append((pair, "mixed", 2))
        out.append((pair, "mixed-2", 2))
    # three competitors, the middle one (by start order) in another interaction loop
    masks3 = range(len(MASKS))
    for m0, m1, m2 in itertools.product(masks3, repeat=3):
        for order in ((0, 1, 2), (1, 0, 2), (0, 2, 1)):
            base = [(m0, "A", "L1", None), (m1, "A", "L2", None), (m2, "B", "L1", None)]
            out.append((tuple(base[k] for k in order), False, 2))
    # priority declared in the awaiting wrapper (its deciding match is on an internal event)
    redp = [c for c in space if c[2] == "L1"]
    for pair in itertools.product(redp, repeat=2):
        if pair[0][3] is None and pair[1][3] is None:
            continue
        out.append((pair, "prio-in-wrapper", 2))
    # the same table with every flow declaring its priority twice, and with the specificity inside a dict-valued parameter
    for pair in itertools.product(redp, repeat=2):
        out.append((pair, "prio-twice", 2))
        out.append((pair, "prio-twice-2", 2))
    nspace = [c for c in space if c[2] == "L1"]
    for pair in itertools.product(nspace, repeat=2):
        out.append((pair, "nested", 2))
    if tier == "quick":
        cur = [c for c in space if c[3] is None and c[2] == "L1"]
        for tr in itertools.product(cur, repeat=3):
            out.append((tr, False, 2))
    else:
        for tr in itertools.product(space, repeat=3):
            out.append((tr, False, 3))
        red4 = [c for c in space if c[3] is None and c[2] == "L1" and c[0] in (0, 1, 3)]
        for q in itertools.product(red4, repeat=4):
            out.append((q, False, 2))
    return out


def tasks2(tier):
    """families added later (hosted by C05 only): where a flow's interaction loop comes from; competitors with a history"""
    out = []
    quick = tier == "quick"
    # --- loop sources: competitor 0 over every form, competitor 1 over the reduced forms (thorough: every form), main with /
    # without a loop of its own; the competitor tuple carries the EFFECTIVE loop, the oracle is the one of the main table
    forms = loop_forms()
    mask_pairs = [(3, 0), (0, 3)] if quick else [(3, 0), (0, 3), (3, 3)]
    act_pairs = [("A", "B")] if quick else [("A", "B"), ("A", "A")]
    for f0 in forms:
        for f1 in (LOOP_FORMS_REDUCED if quick else forms):
            for main_decl in (None, "L2"):
                for (m0, m1), (a0, a1) in itertools.product(mask_pairs, act_pairs):
                    fs_ = (f0, f1)
                    comps = tuple((m, a, effective_loop(f, i, main_decl), None) for i, (m, a, f) in enumerate(zip((m0, m1), (a0, a1), fs_)))
                    out.append((comps, ("loopsrc", main_decl, fs_), 2))
    # every arrangement of an override in the source (before / after the flow it replaces, decorator order)
    for f0 in forms:
        if f0[0] != "over":
            continue
        for arr in range(1, len(ARRANGEMENTS)):
            for f1 in ([("plain", None)] if quick else LOOP_FORMS_REDUCED):
                fs_ = (f0[:3] + (arr,), f1)
                comps = tuple((m, a, effective_loop(f, i, None), None) for i, (m, a, f) in enumerate(zip((3, 0), ("A", "B"), fs_)))
                out.append((comps, ("loopsrc", None, fs_), 2))
    # --- competitors with a history: every pair of first statements, one event (P or Q) earlier than the contested one
    pf = list(PREFIXES)
    for p0, p1 in itertools.product(pf, repeat=2):
        if p0 is None and p1 is None:
            continue
        for (m0, m1), (a0, a1) in itertools.product(mask_pairs, [("A", "B"), ("A", "A")]):
            out.append((((m0, a0, "L1", None), (m1, a1, "L1", None)), ("prefix", (p0, p1)), 3 if quick else 4))
        out.append((((3, "A", "L1", None), (0, "B", "L2", None)), ("prefix", (p0, p1)), 3))
        if not quick:
            for pr0, pr1 in ((0.5, None), (None, 0.5)):
                out.append((((3, "A", "L1", pr0), (2, "B", "L1", pr1)), ("prefix", (p0, p1)), 3))
    return out


# ----------------------------------------------------------------------------- events aimed at action instances
def _all_outcomes(state, uid_n, conc):
    stack = [[]]
    while stack:
        vec = stack.pop()
        st = v2x.copy_state(state)
        points, n2, _ = v2x.step(st, conc, vec, uid_n)
        yield tuple(k for k, _ in points), st, n2
        taken = [k for k, _ in points]
        for i in range(len(vec), len(points)):
            for alt in range(taken[i] + 1, points[i][1]):
                stack.append(taken[:i] + [alt])



# ----------------------------------------------------------------------------- same action name, different arguments
ARGSETS = ["", 'script="Hello"', 'script="Hello", intensity=2', 'script="Bye"', 'intensity=2, script="Hello"']


def same_name_part(_):
    """Two flows react to one event by starting an action of the SAME name: only identical argument sets make an identical
    action (both proceed, started once, argument order does not matter); a subset / superset / different value is a
    different action - exactly one flow proceeds (the more specific one if there is one) and the action that is started
    is the one its flow asked for."""
    res = {"same_name_cases": 0, "same_name_outcomes": 0, "viol": []}

    def norm(a):
        return tuple(sorted(x.strip() for x in a.split(",") if x.strip()))

    for (ia, a), (ib, b) in itertools.product(enumerate(ARGSETS), repeat=2):
        for spec in ("equal", "a-more-specific", "b-more-specific"):
            ma = "E(p1=1)" if spec == "a-more-specific" else "E()"
            mb = "E(p1=1)" if spec == "b-more-specific" else "E()"
            src = (f"flow fa\n  match {ma}\n  start Act1Action({a})\n  send DoneA()\n  match Never()\n\n"
                   f"flow fb\n  match {mb}\n  start Act1Action({b})\n  send DoneB()\n  match Never()\n\n"
                   "flow main\n  start fa\n  start fb\n  match Never()\n")
            identical = norm(a) == norm(b)
            if identical:
                # both go on with the shared action: their next statements must be identical, too
                src = src.replace("send DoneA()", "send Done()").replace("send DoneB()", "send Done()")
            info = {"engine": "C05-inst", "source": src, "args": [a, b], "specificity": spec}
            name = f"same-name:{'identical' if identical else 'different'}-arguments:{spec}"
            try:
                st = v2x.init_state(src)
                v2x.step(st, v2x.resolve_event(st, ("start_main",)), [], v2x.UIDS.n)
                outcomes = list(_all_outcomes(st, v2x.UIDS.n, {"type": "E", "p1": 1, "p2": 2}))
            except Exception as e:
                res["viol"].append((f"{name}:interpreter-raised", f"{type(e).__name__}: {str(e)[:120]}", info))
                continue
            res["same_name_cases"] += 1
            for vec, st2, _n in outcomes:
                res["same_name_outcomes"] += 1
                starts = [e for e in st2.outgoing_events if e["type"] == "StartAct1Action"]
                alive = {f: sm.is_listening_flow(st2.flow_id_states[f][-1]) for f in ("fa", "fb")}
                what = None
                if identical:
                    if not (alive["fa"] and alive["fb"]) or len(starts) != 1:
                        what = f"identical actions: both flows must proceed and the action be started once; alive {alive}, {len(starts)} Start event(s)"
                else:
                    if sum(alive.values()) != 1 or len(starts) != 1:
                        what = f"Act1Action({a}) and Act1Action({b}) are different actions: exactly one flow proceeds; alive {alive}, {len(starts)} Start event(s)"
                    else:
                        w = "fa" if alive["fa"] else "fb"
                        if spec != "equal" and w != ("fa" if spec == "a-more-specific" else "fb"):
                            what = f"the less specific flow {w} proceeded"
                        else:
                            want = dict(x.strip().split("=") for x in (a if w == "fa" else b).split(",") if x.strip())
                            got = {k: (repr(v) if not isinstance(v, str) else '"' + v + '"') for k, v in starts[0].items() if k in ("script", "intensity")}
                            if got != want:
                                what = f"{w} proceeded but the action was started with {got}, it asked for {want}"
                if what:
                    res["viol"].append((name, f"tie-break {list(vec)}: " + what, dict(info, vector=list(vec))))
                    break
    seen, uniq = set(), []
    for v in res["viol"]:
        if v[0] not in seen:
            seen.add(v[0])
            uniq.append(v)
    res["viol"] = uniq
    return res


OBSERVER_STATEMENTS = ["match fb.Finished()", "match FlowFinished(flow_id=\"fb\")", "match fb.Started()", "match fa.Finished()", "match fb.Finished() or Other()",
                       "match fb.Finished() and Other()", "await watcher", "match $ref.Finished()"]


def observers_part(_):
    """fa (more specific) and fb compete on E: fa wins, fb fails.  A third flow that does not react to E at all - it waits
    for an event of a competitor (Finished / Started of the loser or the winner, by name, by flow_id, by reference, in a
    group, through an awaited helper) - is a flow whose match did not fit: it is left untouched, and still reacts later."""
    res = {"observer_cases": 0, "observer_outcomes": 0, "viol": []}
    for stmt in OBSERVER_STATEMENTS:
        for order in ("observer-first", "observer-last"):
            obs = "flow obs\n" + ("  start fb2 as $ref\n" if "$ref" in stmt else "") + f"  {stmt}\n  send ObsDone()\n  match Never()\n\n"
            helper = "flow watcher\n  match fb.Finished()\n\nflow fb2\n  match Later()\n\n"
            starts = ["  start obs\n", "  start fa\n  start fb\n"]
            if order == "observer-last":
                starts.reverse()
            src = ("flow fa\n  match E(p1=1)\n  start Act1Action()\n  match Never()\n\n"
                   "flow fb\n  match E()\n  start Act2Action()\n  match Never()\n\n" + helper + obs +
                   "flow main\n" + "".join(starts) + "  match Never()\n")
            info = {"engine": "C05-inst", "source": src, "observer": stmt, "order": order}
            name = "observer-of-a-competitor-disturbed:" + ("loser" if "fb" in stmt and "$ref" not in stmt else ("reference" if "$ref" in stmt else "winner")) + ":" + stmt.split("(")[0].replace("match ", "").replace(" ", "-")
            try:
                st = v2x.init_state(src)
                v2x.step(st, v2x.resolve_event(st, ("start_main",)), [], v2x.UIDS.n)
                outcomes = list(_all_outcomes(st, v2x.UIDS.n, {"type": "E", "p1": 1}))
            except Exception as e:
                res["viol"].append((f"{name}:interpreter-raised", f"{type(e).__name__}: {str(e)[:120]}", info))
                continue
            res["observer_cases"] += 1
            for vec, st2, _n in outcomes:
                res["observer_outcomes"] += 1
                o = st2.flow_id_states["obs"][-1]
                alive = {f: sm.is_listening_flow(st2.flow_id_states[f][-1]) for f in ("fa", "fb")}
                what = None
                if not alive["fa"] or alive["fb"]:
                    what = f"fa (more specific) must win and fb fail: alive {alive}"
                elif not sm.is_listening_flow(o):
                    what = f"the observer `{stmt}` does not react to E and the awaited event did not occur (fb FAILED, fa goes on), yet it is {o.status.name}"
                elif any(e["type"] == "ObsDone" for e in st2.outgoing_events):
                    what = f"the observer `{stmt}` advanced although the awaited event did not occur"
                if what:
                    res["viol"].append((name, f"[{order}] tie-break {list(vec)}: " + what, dict(info, vector=list(vec))))
                    break
    seen, uniq = set(), []
    for v in res["viol"]:
        if v[0] not in seen:
            seen.add(v[0])
            uniq.append(v)
    res["viol"] = uniq
    return res


def instance_event_part(_):
    """Two flows react to one event by sending an event to an action INSTANCE each holds (`send $r.Stop()`,
    `send $r.Change(...)`): different instances are different actions - exactly one flow proceeds; the same
    shared instance is an identical action - both proceed and the event is sent once."""
    res = {"instance_event_cases": 0, "instance_event_outcomes": 0, "viol": []}
    for op, shared, loops, confirmed in itertools.product(("Stop()", 'Change(arguments={"volume": 3})'), (False, True), ("same", "different"),
                                                          ("both", "none", "first", "second")):
        if shared and loops == "different":
            continue   # identical actions of different loops are not merged: that is the `own` case
        if shared and confirmed in ("first", "second"):
            continue
        argA, argB = ("x", "x") if shared else ("A", "B")
        deco = '@loop("L2")\n' if loops == "different" else ""
        # own instances: each flow starts its action when it is started (no competition); shared instance: both
        # react to E0 by starting the identical action, which is started once and held by both
        first = "  match E0()\n" if shared else ""
        # (with a shared instance both flows go on: their next statements must be identical too, or they would compete again)
        dA, dB = ("Done", "Done") if shared else ("DoneA", "DoneB")
        src = (f'flow fa\n{first}  start Act1Action(script="{argA}") as $r\n  match E1()\n  send $r.{op}\n  send {dA}()\n  match Never()\n\n'
               f'{deco}flow fb\n{first}  start Act1Action(script="{argB}") as $r\n  match E1()\n  send $r.{op}\n  send {dB}()\n  match Never()\n\n'
               f'flow main\n  start fa\n  start fb\n  match Never()\n')
        info = {"engine": "C05-inst", "source": src, "op": op, "shared": shared, "loops": loops, "started_confirmed": confirmed}
        name = f"{op.split('(')[0]}:{'shared' if shared else 'own'}-instance:{loops}-loop" + ("" if confirmed == "both" else f":started-confirmed-for-{confirmed}")
        try:
            st = v2x.init_state(src)
            v2x.step(st, v2x.resolve_event(st, ("start_main",)), [], v2x.UIDS.n)
        except Exception as e:
            res["viol"].append((f"instance-events:{name}:program-raised", repr(e), info))
            continue
        if shared:
            v2x.step(st, {"type": "E0"}, [], v2x.UIDS.n)
        started = [e for e in st.outgoing_events if e["type"] == "StartAct1Action"]
        if shared and loops == "same" and len(started) != 1:
            res["viol"].append((f"instance-events:{name}:identical-start-not-merged", f"{len(started)} Start events", info))
            continue
        uids = [e["action_uid"] for e in started]
        # the actions are running when E1 arrives; their Started events have come back for both / none / one of them
        n0 = v2x.UIDS.n
        for k, u in enumerate(uids):
            if confirmed == "both" or (confirmed == "first" and k == 0) or (confirmed == "second" and k == 1):
                v2x.step(st, {"type": "Act1ActionStarted", "action_uid": u}, [], n0)
                n0 = v2x.UIDS.n
        res["instance_event_cases"] += 1
        evname = "StopAct1Action" if op.startswith("Stop") else "ChangeAct1Action"
        try:
            outcomes = list(_all_outcomes(st, n0, {"type": "E1"}))
        except Exception as e:
            res["viol"].append((f"instance-events:{name}:interpreter-raised", f"event E1: {type(e).__name__}: {str(e)[:120]}", info))
            continue
        for vec, st2, _n in outcomes:
            res["instance_event_outcomes"] += 1
            outs = st2.outgoing_events
            done = sorted(e["type"] for e in outs if e["type"] in ("DoneA", "DoneB"))
            if shared:
                done = sorted("Done" + f[-1].upper() for f in ("fa", "fb") if sm.is_listening_flow(st2.flow_id_states[f][-1]))
            sent = [e["action_uid"] for e in outs if e["type"] == evname]
            what = None
            if shared and loops == "same":
                # one shared instance: identical action, both proceed, the event is sent once
                if done != ["DoneA", "DoneB"] or len([u for u in sent]) < 1:
                    what = f"both flows hold the same instance: expected both to proceed and the event to be sent; proceeded {done}, {evname} sent for {len(sent)} instance(s)"
            elif loops == "different":
                if done != ["DoneA", "DoneB"] or not set(uids) <= set(sent):
                    what = f"flows in different loops never compete: expected both to proceed, each event sent; proceeded {done}, {evname} sent for {sorted(set(sent))}"
            else:
                # different instances in one loop: different actions
                if len(done) != 1:
                    what = f"the flows address DIFFERENT action instances {uids}: exactly one must proceed, proceeded {done}"
                else:
                    winner = uids[0] if done == ["DoneA"] else uids[1]
                    if op.startswith("Change") and sent != [winner]:
                        what = f"{done[0][-1]} proceeded but {evname} was sent for {sent}, its own instance is {winner}"
                    if op.startswith("Stop") and winner not in sent:
                        what = f"{done[0][-1]} proceeded but no {evname} was sent for its own instance {winner} (sent: {sent})"
            if what:
                res["viol"].append((f"instance-events:{name}", f"tie-break {list(vec)}: " + what, dict(info, vector=list(vec))))
                break
    seen, uniq = set(), []
    for v in res["viol"]:
        if v[0] not in seen:
            seen.add(v[0])
            uniq.append(v)
    res["viol"] = uniq
    return res


def cascade_part(_):
    """A flow that loses in one loop takes its children down - also a child that competes in ANOTHER loop in the same
    step.  Whatever the order in which the loops are resolved: a flow may only lose to a flow that really proceeds."""
    res = {"cascade_programs": 0, "cascade_outcomes": 0, "viol": []}
    spec = {"hi": "E(k=1, m=2)", "lo": "E(k=1)"}
    for pq, cd, order, child_first in itertools.product(("q-wins", "p-wins", "tie"), ("c-wins", "d-wins", "tie", "c-alone"),
                                                        list(itertools.permutations(("p", "d", "q"))) + [("z", "p", "d", "q"), ("p", "z", "d", "q"), ("p", "d", "q", "z")], (True, False)):
        if cd == "c-alone" and "z" not in order:
            continue
        mp, mq = {"q-wins": ("lo", "hi"), "p-wins": ("hi", "lo"), "tie": ("hi", "hi")}[pq]
        mc, md = {"c-wins": ("hi", "lo"), "d-wins": ("lo", "hi"), "tie": ("hi", "hi"), "c-alone": ("hi", None)}[cd]
        p_body = ["start c", f"match {spec[mp]}", "start ActPAction()", "match Never()"] if child_first else \
                 ["start c", f"match {spec[mp]}", "start ActPAction()", "match Never()"]
        src = ("flow p\n" + "".join("  " + l + "\n" for l in p_body) + "\n"
               + f'@loop("L2")\nflow c\n  match {spec[mc]}\n  start ActCAction()\n  match Never()\n\n'
               + (f'@loop("L2")\nflow d\n  match {spec[md]}\n  start ActDAction()\n  match Never()\n\n' if md else "flow d\n  match Never()\n\n")
               + ('@loop("L3")\nflow z\n  match E(k=1)\n  start ActZAction()\n  match Never()\n\n' if "z" in order else "")
               + f"flow q\n  match {spec[mq]}\n  start ActQAction()\n  match Never()\n\n"
               + "flow main\n" + "".join(f"  start {f}\n" for f in order) + "  match Never()\n")
        if not child_first:
            continue
        info = {"engine": "C05-cascade", "source": src, "pq": pq, "cd": cd, "order": list(order)}
        try:
            st = v2x.init_state(src)
            v2x.step(st, v2x.resolve_event(st, ("start_main",)), [], v2x.UIDS.n)
            outcomes = list(_all_outcomes(st, v2x.UIDS.n, {"type": "E", "k": 1, "m": 2}))
        except Exception as e:
            res["viol"].append(("cascade:interpreter-raised", f"{type(e).__name__}: {str(e)[:120]}", info))
            continue
        res["cascade_programs"] += 1
        for vec, st2, _n in outcomes:
            res["cascade_outcomes"] += 1
            alive = {f: sm.is_listening_flow(st2.flow_id_states[f][-1]) for f in "pcdq"}
            started = {e["type"][8:9].lower() for e in st2.outgoing_events if e["type"].startswith("StartAct")}
            stopped = {e["type"][7:8].lower() for e in st2.outgoing_events if e["type"].startswith("StopAct")}
            what = None
            if "z" in order and ("z" not in started or not sm.is_listening_flow(st2.flow_id_states["z"][-1])):
                what = "flow z lives in a loop of its own (L3) and reacts to the event: it must start its action whatever happens in the other loops"
                res["viol"].append(("cascade:flow-of-an-unrelated-loop-did-not-proceed",
                                    f"[{pq}, {cd}, started {list(order)}, tie-break {list(vec)}] {what}; events {[e['type'] for e in st2.outgoing_events]}", dict(info, vector=list(vec))))
                break
            if md is None:
                alive["d"] = not alive["c"]    # no competitor in L2: c proceeds iff its parent p does
                if alive["c"] != alive["p"]:
                    res["viol"].append(("cascade:only-child-in-its-loop", f"[{pq}, {cd}, started {list(order)}, tie-break {list(vec)}] c alone in L2: alive {alive}", dict(info, vector=list(vec))))
                    break
            for f in "pcdq":
                if f in started and not alive[f] and f not in stopped:
                    what = f"flow {f} is over after the step but the action it started in this step was not stopped"
            if what is None and alive["p"] == alive["q"]:
                what = f"main loop: p and q compete for different actions, exactly one must proceed: alive {alive}"
            if what is None and alive["c"] == alive["d"]:
                what = (f"loop L2: c and d compete for different actions; c is {'alive' if alive['c'] else 'over'} and d is {'alive' if alive['d'] else 'over'} "
                        f"(p {'proceeded' if alive['p'] else 'lost, which ends its child c'}): exactly one of them must proceed")
            if what is None and alive["c"] and not alive["p"]:
                what = "c is still running although its parent p is over"
            if what:
                kind = "child-of-loser" if not alive["p"] else "child-of-winner"
                if not alive["p"] and "c" in started and "c" in stopped and not alive["d"] and what.startswith("loop L2"):
                    # L2 was resolved before the main loop: c beat d, then lost its parent
                    kind = "winner-taken-down-by-its-parent-losing-later-in-the-same-step"
                res["viol"].append((f"cascade:{kind}",
                                    f"[{pq}, {cd}, started {list(order)}, tie-break {list(vec)}] {what}; events {[e['type'] for e in st2.outgoing_events]}", dict(info, vector=list(vec))))
                break
    seen, uniq = set(), []
    for v in res["viol"]:
        if v[0] not in seen:
            seen.add(v[0])
            uniq.append(v)
    res["viol"] = uniq
    return res


def run(rep, tier):
    from vf.e1run import run_e1
    import vf.props.c05 as me

    rep.assumptions += [
        "competitor table: mention mask over {p1,p2} x action {A,B} x loop {main loop, L2} x priority {none,0.5}; "
        "events E(p1 in {a,x}, p2 in {b,y}, p3); n=2 complete (+indirect via awaited sub-flow), quick: n=3 reduced, thorough: n=3 complete, n=4 reduced",
        "all random.choice outcomes enumerated; depth: start + 2 trigger events",
        "loop sources (n=2, depth start + 1 event): competitor 0 over {no decorator, @loop(\"L2\"), @loop(id=\"L2\"), @loop(\"L3\"), @loop(\"NEW\"), "
        "@override flow x replaced flow with each of {none, L2, L3, NEW} on either (4 source arrangements), started by a parent "
        "with @loop L2 / NEW}, competitor 1 over 5 of these forms [thorough: all], main with / without @loop(\"L2\"); effective loop = "
        "the flow's own declaration (an override's own decorators only), else the starter's loop",
        "competitors with a history (n=2): first statement of each over {none, match P, match P or Q, await g, await g or h, await g and h, "
        "await (g and h) or k, when P / or when Q}, earlier event P or Q, then the contested events; quick depth start + 2 [thorough + 3]",
    ]
    run_e1(rep, me, tier, budget_s=None if tier == "quick" else 1500)

    class _Later:   # the later families (not hosted by C09): same explorer, same oracle
        explore = staticmethod(explore)
        tasks = staticmethod(tasks2)
    run_e1(rep, _Later, tier, budget_s=None if tier == "quick" else 600)
    from vf import par
    for r in par.pmap(instance_event_part, [0]):
        rep.set("instance_event_cases", r["instance_event_cases"])
        rep.set("instance_event_outcomes", r["instance_event_outcomes"])
        for sig, what, info in r["viol"]:
            rep.violation(sig, what, info)
    for r in par.pmap(same_name_part, [0]):
        rep.set("same_name_cases", r["same_name_cases"])
        rep.set("same_name_outcomes", r["same_name_outcomes"])
        for sig, what, info in r["viol"]:
            rep.violation(sig, what, info)
    for r in par.pmap(observers_part, [0]):
        rep.set("observer_cases", r["observer_cases"])
        rep.set("observer_outcomes", r["observer_outcomes"])
        for sig, what, info in r["viol"]:
            rep.violation(sig, what, info)
    for r in par.pmap(cascade_part, [0]):
        rep.set("cascade_programs", r["cascade_programs"])
        rep.set("cascade_outcomes", r["cascade_outcomes"])
        for sig, what, info in r["viol"]:
            rep.violation(sig, what, info)
    rep.set("rule", "non-trivial = a step in which >=2 fitting flows competed in one loop (competitions)")
    rep.set("distinct_nontrivial", rep.cov.get("competitions", 0))
    rep.set("evaluations", rep.cov.get("transitions", 0))


def replay(rp):
    if rp.get("engine") == "C05-cascade":
        print(rp["source"])
        st = v2x.init_state(rp["source"])
        v2x.step(st, v2x.resolve_event(st, ("start_main",)), [], v2x.UIDS.n)
        for vec, st2, _n in _all_outcomes(st, v2x.UIDS.n, {"type": "E", "k": 1, "m": 2}):
            print("tie-break", vec, "->", [e["type"] for e in st2.outgoing_events], {f: st2.flow_id_states[f][-1].status.name for f in "pcdq"})
        print(rp.get("what"))
        return 0
    if rp.get("engine") == "C05-inst":
        print(rp["source"])
        for part in (instance_event_part, same_name_part, observers_part):
            r = part(0)
            for sig, what, _i in r["viol"]:
                print(sig, ":", what)
        print(rp.get("what"))
        return 0
    from vf.props.c07 import replay as r
    return r(rp)
