"""C12 - the ways a Colang 1.0 flow reaches the interpreter.

What `sliding.slide` / `compute_next_state` walk over is `runtime.flow_configs[id].elements`, the flow as LOADED,
not the list `parse_colang_file` returns: the loader of the runtime (`RuntimeV1_0._load_flow_config`) moves the
flow-level declarations (`meta` elements: subflow / extension / priority ...) to the `FlowConfig` and takes them
out of the element list.  Whatever the loader does to the list happens after `_extract_elements` /
`_resolve_gotos` computed the relative offsets.

  (a) host loader   : `RuntimeV1_0._load_flow_config(flow)` of one runtime built once (cheap: every 1.0 flow the
                      check sees goes through it)
  (b) whole runtime : `RuntimeV1_0(RailsConfig.from_content(colang_content=source)).flow_configs` - what
                      `LLMRails(config).runtime.flow_configs` holds (LLMRails itself is not built: its constructor
                      starts a thread that tries to download an embedding model)
  (c) start_flow    : the flow carried by a `start_flow` event of a history (`flow_body`), as the runtime hands it
                      to `compute_next_state` (`RuntimeV1_0._get_flow_configs`)
"""
from __future__ import annotations

import warnings

from nemoguardrails import RailsConfig
from nemoguardrails.colang.v1_0.runtime.runtime import RuntimeV1_0

HOST_SOURCE = "define flow vfhost\n  user vf never said\n  bot vf never says\n"
YAML = "models: []\n"
_HOST = {}


def host():
    """one RuntimeV1_0 on a minimal 1.0 configuration (built in the parent, inherited by the workers)"""
    if "rt" not in _HOST:
        with warnings.catch_warnings():
            warnings.simplefilter("ignore")
            cfg = RailsConfig.from_content(colang_content=HOST_SOURCE, yaml_content=YAML)
            _HOST["rt"] = RuntimeV1_0(cfg)
    return _HOST["rt"]


def strip(elements):
    """elements without the source mapping (two parses of one text differ in nothing else)"""
    return [{k: v for k, v in e.items() if k != "_source_mapping"} for e in elements]


def load_host(flow):
    """(a) -> the FlowConfig the loader makes of one parsed flow.  The loader gets its own dict and its own list
    (it writes flow-level keys into the dict); the element dicts are the parser's."""
    rt = host()
    saved = rt.flow_configs
    rt.flow_configs = {}
    try:
        copy = dict(flow)
        copy["elements"] = list(flow["elements"])
        rt._load_flow_config(copy)
        if len(rt.flow_configs) != 1:
            raise RuntimeError(f"the loader registered {len(rt.flow_configs)} flows for one parsed flow")
        (fc,) = rt.flow_configs.values()
    finally:
        rt.flow_configs = saved
    return fc


def load_runtime(source):
    """(b) -> {flow id: FlowConfig} of a runtime built on the configuration made of `source`"""
    with warnings.catch_warnings():
        warnings.simplefilter("ignore")
        cfg = RailsConfig.from_content(colang_content=source, yaml_content=YAML)
        return RuntimeV1_0(cfg).flow_configs


def dynamic_available():
    return hasattr(host(), "_get_flow_configs")


def load_dynamic(flow_id, body):
    """(c) -> the FlowConfig of the flow a `start_flow` event with this `flow_body` defines"""
    rt = host()
    history = [{"type": "start_flow", "flow_id": flow_id, "flow_body": body}]
    cfgs = rt._get_flow_configs(history)
    return cfgs[flow_id]
