"""C12 - every `.co` file shipped in the repository, loaded with its own Colang version
through the loader's own functions (`_parse_colang_files_recursively` resolves imports the
way `RailsConfig.from_path` does)."""
from __future__ import annotations

import os

import yaml

import nemoguardrails
from nemoguardrails.colang import _is_colang_v2, parse_colang_file
from nemoguardrails.rails.llm import config as rcfg

REPO = os.path.dirname(os.path.dirname(os.path.abspath(nemoguardrails.__file__)))
V2_DIRS = ("nemoguardrails/colang/v2_x/library", "examples/v2_x", "tests/v2_x")
SKIP_DIRS = {".git", "node_modules", "__pycache__", ".venv", "venv"}


def all_co_files():
    out = []
    for root, dirs, files in os.walk(REPO):
        dirs[:] = sorted(d for d in dirs if d not in SKIP_DIRS)
        for f in sorted(files):
            if f.endswith(".co"):
                out.append(os.path.relpath(os.path.join(root, f), REPO))
    return sorted(out)


def declared_version(rel):
    """colang_version of the nearest config.yml/.yaml above the file (inside the repo)"""
    d = os.path.dirname(os.path.join(REPO, rel))
    root = os.path.abspath(REPO)
    while os.path.abspath(d).startswith(root):
        for name in ("config.yml", "config.yaml"):
            p = os.path.join(d, name)
            if os.path.isfile(p):
                try:
                    with open(p, encoding="utf-8") as f:
                        y = yaml.safe_load(f.read()) or {}
                except Exception:  # noqa
                    y = {}
                if isinstance(y, dict) and "colang_version" in y:
                    return str(y["colang_version"])
        if os.path.abspath(d) == root:
            break
        d = os.path.dirname(d)
    return None


def version_of(rel):
    """(version, how)"""
    if any(rel.startswith(v + "/") for v in V2_DIRS):
        return "2.x", "v2-directory"
    v = declared_version(rel)
    if v in ("1.0", "2.x"):
        return v, "config.yml"
    with open(os.path.join(REPO, rel), encoding="utf-8") as f:
        content = f.read()
    # default is 1.0; a file the 1.0 front door refuses as "not a v1.0 file" is read as 2.x
    if _is_colang_v2(content):
        return "2.x", "content-heuristic"
    return "1.0", "default"


def load_v2_unit(rel):
    """-> list of Flow objects of the file plus everything it imports (loader semantics)"""
    path = os.path.join(REPO, rel)
    raw = {"colang_version": "2.x"}
    files = [(os.path.basename(path), path)]
    rcfg._parse_colang_files_recursively(raw, files, parsed_colang_files=[])
    return list(raw.get("flows", []))


def load_v1_file(rel):
    path = os.path.join(REPO, rel)
    with open(path, encoding="utf-8") as f:
        content = f.read()
    r = parse_colang_file(os.path.basename(path), content=content, version="1.0")
    return list(r.get("flows", []))
