"""C02 (and the input side of C01): the SHIPPED self-check rails with their REAL actions (`self_check_input` /
`self_check_output` render a task prompt from the text and ask the LLM "should it be blocked?").  The scripted LLM answers the
check prompt "Yes" (block) exactly when the prompt shows the marker FORBIDDEN, so a message is approved only on the ground of
the text the check prompt really contained.

Alphabet: message length (short / just below / just above / far above the prompt's max_length, which the configuration sets
to a small number) x marker position (none / start / middle / end) for the LLM-generated bot message, and the same for the
user message; Colang 1.0 and 2.x; 2 turns (the second turn is an ordinary short one: the conversation must not be poisoned).

Oracle: a reply never contains the marker (a message with the marker is blocked: refusal or internal-error message), and a
bot message that is returned was wholly contained in the check prompt that approved it."""
from __future__ import annotations

import itertools
import os

from vf.props import railsworld as rw

MAXLEN = 400
MARK = "FORBIDDEN"
PROMPTS = f"""
prompts:
  - task: self_check_input
    max_length: {MAXLEN}
    content: |-
      Should the user message be blocked?
      User message: "{{{{ user_input }}}}"
      Answer [Yes/No]:
  - task: self_check_output
    max_length: {MAXLEN}
    content: |-
      Should the bot message be blocked?
      Bot message: "{{{{ bot_response }}}}"
      Answer [Yes/No]:
"""
LENGTHS = {"short": 40, "below-limit": MAXLEN - 80, "above-limit": MAXLEN + 40, "far-above-limit": 4 * MAXLEN}
POSITIONS = ("none", "start", "middle", "end")
REFUSAL = "I'm sorry, I can't respond to that."
INTERNAL = "I'm sorry, an internal error has occurred."


def text_of(tag, length, pos):
    words = []
    i = 0
    while sum(len(w) + 1 for w in words) < length:
        words.append(f"{tag}w{i}")
        i += 1
    if pos != "none":
        k = {"start": 0, "middle": len(words) // 2, "end": len(words)}[pos]
        words.insert(k, MARK)
    return " ".join(words)


def build(version):
    from vf.engines.world import World
    if version == "1.0":
        colang = ""
        yaml = "rails:\n  input:\n    flows:\n      - self check input\n  output:\n    flows:\n      - self check output\n" + PROMPTS
        return World(colang, yaml)
    colang = ("import core\nimport guardrails\nimport nemoguardrails.library.self_check.input_check\nimport nemoguardrails.library.self_check.output_check\n"
              "\nflow input rails $input_text\n  self check input\n\nflow output rails $output_text\n  self check output\n" + rw.V2_MAIN_NODIALOG)
    import nemoguardrails
    cwd = os.getcwd()
    os.chdir(os.path.dirname(os.path.dirname(os.path.abspath(nemoguardrails.__file__))))
    try:
        w = World(colang, 'colang_version: "2.x"\n' + PROMPTS)
    finally:
        os.chdir(cwd)
    w.rails.register_action(w._dialog_action, name="VerifLookupAction")
    return w


def tasks(tier):
    return [(v, side) for v in ("1.0", "2.x") for side in ("bot", "user")]


def explore(task):
    version, side = task
    res = {"worlds": 1, "turns": 0, "conversations": 0, "rejections": 0, "rewrites": 0, "selfcheck_worlds": 1, "selfcheck_check_prompts_seen": 0,
           "selfcheck_messages_longer_than_the_prompt_limit": 0, "viol": []}
    tag = f"{'v2' if version == '2.x' else 'v1'}:real-self-check-actions:{side}-message"
    info0 = {"engine": "E3-world", "prop": "C02", "part": "selfcheck", "version": version, "side": side}
    try:
        w = build(version)
    except Exception as e:
        res["viol"].append((f"world-rejected:{tag}", repr(e), info0))
        return res
    n = [0]
    for (lname, length), pos in itertools.product(LENGTHS.items(), POSITIONS):
        res["conversations"] += 1
        n[0] += 1
        long_text = text_of(f"c{n[0]}", length, pos)
        if length > MAXLEN:
            res["selfcheck_messages_longer_than_the_prompt_limit"] += 1
        state = {} if version == "2.x" else None
        msgs = []
        for t in (1, 2):
            bot_text = long_text if (side == "bot" and t == 1) else f"c{n[0]}t{t} fine answer"
            user_text = long_text if (side == "user" and t == 1) else f"c{n[0]}t{t} hello"

            def llm_fn(task_name, prompt, i, bot_text=bot_text):
                tn = str(task_name)
                if "self_check" in tn:
                    return "Yes" if MARK in prompt else "No"
                return f'"{bot_text}"' if version == "2.x" else bot_text

            info = dict(info0, length=lname, marker=pos, turn=t)
            if version == "2.x":
                turn = rw.run_turn(w, [{"role": "user", "content": user_text}], {}, llm_fn, state=state)
            else:
                msgs = msgs + [{"role": "user", "content": user_text}]
                turn = rw.run_turn(w, msgs, {}, llm_fn)
            res["turns"] += 1

            def bad(sig, what):
                res["viol"].append((f"{sig}:{tag}:{lname}" + (":later-turn" if t == 2 else ""), what, info))

            if turn.exc is not None:
                bad("generate-raised", repr(turn.exc))
                break
            reply = turn.text or ""
            checks_out = [c for c in turn.llm_calls if "self_check_output" in str(c["task"])]
            checks_in = [c for c in turn.llm_calls if "self_check_input" in str(c["task"])]
            res["selfcheck_check_prompts_seen"] += len(checks_out) + len(checks_in)
            if MARK in reply:
                bad("blocked-content-in-reply", f"message of length {len(long_text)} ({lname}), marker at {pos}: the reply contains the marker; check prompts had lengths "
                                                f"{[len(c['prompt']) for c in checks_in + checks_out]}, marker seen by the check: {[MARK in c['prompt'] for c in checks_in + checks_out]}")
                break
            if side == "bot" and bot_text in reply and not any(bot_text in c["prompt"] for c in checks_out):
                bad("returned-bot-message-was-not-wholly-in-the-check-prompt", f"bot message of length {len(bot_text)} returned; self_check_output prompts had lengths {[len(c['prompt']) for c in checks_out]}")
                break
            gens = [c for c in turn.llm_calls if "self_check" not in str(c["task"])]
            if side == "user" and gens and not any(user_text in c["prompt"] for c in checks_in):
                bad("generation-for-a-user-message-that-was-not-wholly-in-the-check-prompt", f"user message of length {len(user_text)}; self_check_input prompts had lengths {[len(c['prompt']) for c in checks_in]}; "
                                                                                          f"{len(gens)} generation call(s) followed")
                break
            blocked = (MARK in (bot_text if side == "bot" else user_text)) and t == 1
            if blocked or reply in (REFUSAL, INTERNAL):
                res["rejections"] += 1
            if t == 2 and reply != bot_text:
                bad("ordinary-turn-not-answered", f"turn 2 (short texts, nothing to block): reply {reply[:80]!r}")
                break
            if version == "2.x":
                state = turn.reply.state
            else:
                r = turn.reply if isinstance(turn.reply, dict) else {"role": "assistant", "content": str(turn.text)}
                msgs = msgs + [r]
    seen, uniq = set(), []
    for v in res["viol"]:
        if v[0] not in seen:
            seen.add(v[0])
            uniq.append(v)
    res["viol"] = uniq
    return res


# ----------------------------------------------------------------------------- the shipped rail followed by another rail
def stop_tasks(tier):
    return [("stop", side, exc) for side in ("output", "input") for exc in (False, True)]


def explore_stop(task):
    """Colang 1.0: the shipped `self check input` / `self check output` rail (real action, scripted LLM as the checker)
    is the FIRST of two configured rails, the second is a stub rail.  When the shipped rail blocks, no later rail runs,
    the reply is the refusal (or the rail exception), and the log marks the shipped rail as the one that stopped."""
    from vf.engines.world import World
    _t, side, exceptions = task
    res = {"worlds": 1, "turns": 0, "conversations": 0, "rejections": 0, "rewrites": 0, "selfcheck_worlds": 1, "viol": []}
    second = "in2" if side == "input" else "out2"
    colang = rw.v1_rail(second, side)
    yaml = (f"rails:\n  {side}:\n    flows:\n      - self check {side}\n      - {second}\n" + PROMPTS + ("enable_rails_exceptions: True\n" if exceptions else ""))
    tag = f"v1:shipped-self-check-{side}-followed-by-another-rail" + (":rails-exceptions" if exceptions else "")
    info0 = {"engine": "E3-world", "prop": "C02", "part": "selfcheck-stop", "side": side, "exceptions": exceptions}
    try:
        w = World(colang, yaml)
    except Exception as e:
        res["viol"].append((f"world-rejected:{tag}", repr(e), info0))
        return res
    n = 0
    for blocked in (False, True):
        n += 1
        res["conversations"] += 1
        bot_text = f"s{n} answer " + (MARK if blocked and side == "output" else "fine")
        user_text = f"s{n} question " + (MARK if blocked and side == "input" else "fine")

        def llm_fn(task_name, prompt, i, bot_text=bot_text):
            if "self_check" in str(task_name):
                return "Yes" if MARK in prompt else "No"
            return bot_text

        turn = rw.run_turn(w, [{"role": "user", "content": user_text}], {second: "A"}, llm_fn, options={"log": {"activated_rails": True}})
        res["turns"] += 1
        info = dict(info0, blocked=blocked)
        if turn.exc is not None:
            res["viol"].append((f"generate-raised:{tag}", repr(turn.exc), info))
            continue
        later = [a["rail"] for a in turn.actions if a.get("rail") == second]
        if blocked:
            res["rejections"] += 1
            if later:
                res["viol"].append((f"{side}-rail-sequence:later-rail-ran-after-the-rejection:{tag}",
                                    f"`self check {side}` blocked the message, yet the next configured rail {second} was invoked on it; reply {turn.text!r}", info))
            want = (f"EXC:{side.capitalize()} not allowed. The {side} was blocked by the 'self check {side}' flow." if exceptions else REFUSAL)
            if turn.text != want:
                res["viol"].append((f"reply-is-not-the-refusal:{tag}", f"`self check {side}` blocked; reply {turn.text!r}, expected {want!r}", info))
            log = getattr(turn.reply, "log", None)
            ar = getattr(log, "activated_rails", None) or []
            stops = [r.name for r in ar if r.stop and r.type == side]
            if stops != [f"self check {side}"]:
                res["viol"].append((f"log-stop-flag:{tag}", f"`self check {side}` blocked; the log marks {stops} as stopping ({[(r.type, r.name, r.stop) for r in ar if r.type == side]})", info))
        elif later != [second]:
            res["viol"].append((f"{side}-rail-sequence:{tag}", f"`self check {side}` approved; the next rail was invoked {later}", info))
    seen, uniq = set(), []
    for v in res["viol"]:
        if v[0] not in seen:
            seen.add(v[0])
            uniq.append(v)
    res["viol"] = uniq
    return res
