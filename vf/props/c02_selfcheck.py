"""C02 (and the input side of C01): the SHIPPED self-check rails with their REAL actions (`self_check_input` /
`self_check_output` render a task prompt from the text and ask the LLM "should it be blocked?").  The scripted LLM answers the
check prompt "Yes" (block) exactly when the prompt shows the marker FORBIDDEN, so a message is approved only on the ground of
the text the check prompt really contained.

Alphabet: message length (short / just below / just above / far above the prompt's max_length, which the configuration sets
to a small number) x marker position (none / start / middle / end) for the LLM-generated bot message, and the same for the
user message; Colang 1.0 and 2.x; 2 turns (the second turn is an ordinary short one: the conversation must not be poisoned).

Oracle: a reply never contains the marker (a message with the marker is blocked: refusal or internal-error message), and a
bot message that is returned was wholly contained in the check prompt that approved it."""
from __future__ import annotations

import itertools
import os

from vf.props import railsworld as rw

MAXLEN = 400
MARK = "FORBIDDEN"
PROMPTS = f"""
prompts:
  - task: self_check_input
    max_length: {MAXLEN}
    content: |-
      Should the user message be blocked?
      User message: "{{{{ user_input }}}}"
      Answer [Yes/No]:
  - task: self_check_output
    max_length: {MAXLEN}
    content: |-
      Should the bot message be blocked?
      Bot message: "{{{{ bot_response }}}}"
      Answer [Yes/No]:
"""
LENGTHS = {"short": 40, "below-limit": MAXLEN - 80, "above-limit": MAXLEN + 40, "far-above-limit": 4 * MAXLEN}
POSITIONS = ("none", "start", "middle", "end")
REFUSAL = "I'm sorry, I can't respond to that."
INTERNAL = "I'm sorry, an internal error has occurred."


def text_of(tag, length, pos):
    words = []
    i = 0
    while sum(len(w) + 1 for w in words) < length:
        words.append(f"{tag}w{i}")
        i += 1
    if pos != "none":
        k = {"start": 0, "middle": len(words) // 2, "end": len(words)}[pos]
        words.insert(k, MARK)
    return " ".join(words)


def build(version):
    from vf.engines.world import World
    if version == "1.0":
        colang = ""
        yaml = "rails:\n  input:\n    flows:\n      - self check input\n  output:\n    flows:\n      - self check output\n" + PROMPTS
        return World(colang, yaml)
    colang = ("import core\nimport guardrails\nimport nemoguardrails.library.self_check.input_check\nimport nemoguardrails.library.self_check.output_check\n"
              "\nflow input rails $input_text\n  self check input\n\nflow output rails $output_text\n  self check output\n" + rw.V2_MAIN_NODIALOG)
    import nemoguardrails
    cwd = os.getcwd()
    os.chdir(os.path.dirname(os.path.dirname(os.path.abspath(nemoguardrails.__file__))))
    try:
        w = World(colang, 'colang_version: "2.x"\n' + PROMPTS)
    finally:
        os.chdir(cwd)
    w.rails.register_action(w._dialog_action, name="VerifLookupAction")
    return w


def tasks(tier):
    return [(v, side) for v in ("1.0", "2.x") for side in ("bot", "user")]


def explore(task):
    version, side = task
    res = {"worlds": 1, "turns": 0, "conversations": 0, "rejections": 0, "rewrites": 0, "selfcheck_worlds": 1, "selfcheck_check_prompts_seen": 0,
           "selfcheck_messages_longer_than_the_prompt_limit": 0, "viol": []}
    tag = f"{'v2' if version == '2.x' else 'v1'}:real-self-check-actions:{side}-message"
    info0 = {"engine": "E3-world", "prop": "C02", "part": "selfcheck", "version": version, "side": side}
    try:
        w = build(version)
    except Exception as e:
        res["viol"].append((f"world-rejected:{tag}", repr(e), info0))
        return res
    n = [0]
    for (lname, length), pos in itertools.product(LENGTHS.items(), POSITIONS):
        res["conversations"] += 1
        n[0] += 1
        long_text = text_of(f"c{n[0]}", length, pos)
        if length > MAXLEN:
            res["selfcheck_messages_longer_than_the_prompt_limit"] += 1
        state = {} if version == "2.x" else None
        msgs = []
        for t in (1, 2):
            bot_text = long_text if (side == "bot" and t == 1) else f"c{n[0]}t{t} fine answer"
            user_text = long_text if (side == "user" and t == 1) else f"c{n[0]}t{t} hello"

            def llm_fn(task_name, prompt, i, bot_text=bot_text):
                tn = str(task_name)
                if "self_check" in tn:
                    return "Yes" if MARK in prompt else "No"
                return f'"{bot_text}"' if version == "2.x" else bot_text

            info = dict(info0, length=lname, marker=pos, turn=t)
            if version == "2.x":
                turn = rw.run_turn(w, [{"role": "user", "content": user_text}], {}, llm_fn, state=state)
            else:
                msgs = msgs + [{"role": "user", "content": user_text}]
                turn = rw.run_turn(w, msgs, {}, llm_fn)
            res["turns"] += 1

            def bad(sig, what):
                res["viol"].append((f"{sig}:{tag}:{lname}" + (":later-turn" if t == 2 else ""), what, info))

            if turn.exc is not None:
                bad("generate-raised", repr(turn.exc))
                break
            reply = turn.text or ""
            checks_out = [c for c in turn.llm_calls if "self_check_output" in str(c["task"])]
            checks_in = [c for c in turn.llm_calls if "self_check_input" in str(c["task"])]
            res["selfcheck_check_prompts_seen"] += len(checks_out) + len(checks_in)
            if MARK in reply:
                bad("blocked-content-in-reply", f"message of length {len(long_text)} ({lname}), marker at {pos}: the reply contains the marker; check prompts had lengths "
                                                f"{[len(c['prompt']) for c in checks_in + checks_out]}, marker seen by the check: {[MARK in c['prompt'] for c in checks_in + checks_out]}")
                break
            if side == "bot" and bot_text in reply and not any(bot_text in c["prompt"] for c in checks_out):
                bad("returned-bot-message-was-not-wholly-in-the-check-prompt", f"bot message of length {len(bot_text)} returned; self_check_output prompts had lengths {[len(c['prompt']) for c in checks_out]}")
                break
            gens = [c for c in turn.llm_calls if "self_check" not in str(c["task"])]
            if side == "user" and gens and not any(user_text in c["prompt"] for c in checks_in):
                bad("generation-for-a-user-message-that-was-not-wholly-in-the-check-prompt", f"user message of length {len(user_text)}; self_check_input prompts had lengths {[len(c['prompt']) for c in checks_in]}; "
                                                                                          f"{len(gens)} generation call(s) followed")
                break
            blocked = (MARK in (bot_text if side == "bot" else user_text)) and t == 1
            if blocked or reply in (REFUSAL, INTERNAL):
                res["rejections"] += 1
            if t == 2 and reply != bot_text:
                bad("ordinary-turn-not-answered", f"turn 2 (short texts, nothing to block): reply {reply[:80]!r}")
                break
            if version == "2.x":
                state = turn.reply.state
            else:
                r = turn.reply if isinstance(turn.reply, dict) else {"role": "assistant", "content": str(turn.text)}
                msgs = msgs + [r]
    seen, uniq = set(), []
    for v in res["viol"]:
        if v[0] not in seen:
            seen.add(v[0])
            uniq.append(v)
    res["viol"] = uniq
    return res


# ----------------------------------------------------------------------------- the shipped rail followed by another rail
def stop_tasks(tier):
    return [("stop", side, exc) for side in ("output", "input") for exc in (False, True)]


def explore_stop(task):
    """Colang 1.0: the shipped `self check input` / `self check output` rail (real action, scripted LLM as the checker)
    is the FIRST of two configured rails, the second is a stub rail.  When the shipped rail blocks, no later rail runs,
    the reply is the refusal (or the rail exception), and the log marks the shipped rail as the one that stopped."""
    from vf.engines.world import World
    _t, side, exceptions = task
    res = {"worlds": 1, "turns": 0, "conversations": 0, "rejections": 0, "rewrites": 0, "selfcheck_worlds": 1, "viol": []}
    second = "in2" if side == "input" else "out2"
    colang = rw.v1_rail(second, side)
    yaml = (f"rails:\n  {side}:\n    flows:\n      - self check {side}\n      - {second}\n" + PROMPTS + ("enable_rails_exceptions: True\n" if exceptions else ""))
    tag = f"v1:shipped-self-check-{side}-followed-by-another-rail" + (":rails-exceptions" if exceptions else "")
    info0 = {"engine": "E3-world", "prop": "C02", "part": "selfcheck-stop", "side": side, "exceptions": exceptions}
    try:
        w = World(colang, yaml)
    except Exception as e:
        res["viol"].append((f"world-rejected:{tag}", repr(e), info0))
        return res
    n = 0
    for blocked in (False, True):
        n += 1
        res["conversations"] += 1
        bot_text = f"s{n} answer " + (MARK if blocked and side == "output" else "fine")
        user_text = f"s{n} question " + (MARK if blocked and side == "input" else "fine")

        def llm_fn(task_name, prompt, i, bot_text=bot_text):
            if "self_check" in str(task_name):
                return "Yes" if MARK in prompt else "No"
            return bot_text

        turn = rw.run_turn(w, [{"role": "user", "content": user_text}], {second: "A"}, llm_fn, options={"log": {"activated_rails": True}})
        res["turns"] += 1
        info = dict(info0, blocked=blocked)
        if turn.exc is not None:
            res["viol"].append((f"generate-raised:{tag}", repr(turn.exc), info))
            continue
        later = [a["rail"] for a in turn.actions if a.get("rail") == second]
        if blocked:
            res["rejections"] += 1
            if later:
                res["viol"].append((f"{side}-rail-sequence:later-rail-ran-after-the-rejection:{tag}",
                                    f"`self check {side}` blocked the message, yet the next configured rail {second} was invoked on it; reply {turn.text!r}", info))
            want = (f"EXC:{side.capitalize()} not allowed. The {side} was blocked by the 'self check {side}' flow." if exceptions else REFUSAL)
            if turn.text != want:
                res["viol"].append((f"reply-is-not-the-refusal:{tag}", f"`self check {side}` blocked; reply {turn.text!r}, expected {want!r}", info))
            log = getattr(turn.reply, "log", None)
            ar = getattr(log, "activated_rails", None) or []
            stops = [r.name for r in ar if r.stop and r.type == side]
            if stops != [f"self check {side}"]:
                res["viol"].append((f"log-stop-flag:{tag}", f"`self check {side}` blocked; the log marks {stops} as stopping ({[(r.type, r.name, r.stop) for r in ar if r.type == side]})", info))
        elif later != [second]:
            res["viol"].append((f"{side}-rail-sequence:{tag}", f"`self check {side}` approved; the next rail was invoked {later}", info))
    seen, uniq = set(), []
    for v in res["viol"]:
        if v[0] not in seen:
            seen.add(v[0])
            uniq.append(v)
    res["viol"] = uniq
    return res


# ----------------------------------------------------------------------------- a verdict that depends on more than the bot text
ASK = "ASKVAULT"
PROMPTS_CTX = """
prompts:
  - task: self_check_output
    content: |-
      The bot may answer ordinary questions. It must never answer a question about the vault.
      User message: "{{ user_input }}"
      Bot message: "{{ bot_response }}"
      Should the bot message be blocked? Answer [Yes/No]:
"""
BOT_TEXTS = {"X": "The code is 7731.", "Y": "It is sunny today."}


def build_ctx(version):
    from vf.engines.world import World
    if version == "1.0":
        return World("", "rails:\n  output:\n    flows:\n      - self check output\n" + PROMPTS_CTX)
    colang = ("import core\nimport guardrails\nimport nemoguardrails.library.self_check.output_check\n"
              "\nflow output rails $output_text\n  self check output\n" + rw.V2_MAIN_NODIALOG)
    import nemoguardrails
    cwd = os.getcwd()
    os.chdir(os.path.dirname(os.path.dirname(os.path.abspath(nemoguardrails.__file__))))
    try:
        w = World(colang, 'colang_version: "2.x"\n' + PROMPTS_CTX)
    finally:
        os.chdir(cwd)
    w.rails.register_action(w._dialog_action, name="VerifLookupAction")
    return w


def ctx_tasks(tier):
    turns = 3 if tier == "quick" else 4
    return [("ctx", v, turns, first) for v in ("1.0", "2.x") for first in ("plain", "flagged")]


def explore_ctx(task):
    """The REAL `self_check_output` action; the check prompt shows the user message next to the bot message (as the prompts of
    several shipped examples do) and the scripted checker blocks exactly when the USER message shown in the prompt carries the
    marker - so the verdict for one and the same bot text differs from turn to turn.  Conversations = every sequence of
    (user message plain / flagged) x (bot text X / Y) per turn, all conversations of a world on ONE LLMRails instance, so each
    bot text recurs in later turns and in later conversations with the other verdict.
    Oracle per turn: the checker was asked exactly once, with a prompt that shows THIS turn's user message and THIS turn's bot
    message; blocked -> the reply is the refusal and does not contain the bot text; otherwise the reply is the bot text."""
    _t, version, turns, first = task
    res = {"worlds": 1, "turns": 0, "conversations": 0, "rejections": 0, "rewrites": 0, "selfcheck_worlds": 1, "selfcheck_check_prompts_seen": 0,
           "selfcheck_turns_repeating_a_bot_text_with_another_verdict": 0, "viol": []}
    tag = f"{'v2' if version == '2.x' else 'v1'}:real-self-check-actions:verdict-depends-on-the-user-message"
    info0 = {"engine": "E3-world", "prop": "C02", "part": "selfcheck-ctx", "version": version, "turns": turns, "first": first}
    try:
        w = build_ctx(version)
    except Exception as e:
        res["viol"].append((f"world-rejected:{tag}", repr(e), info0))
        return res
    alphabet = [(u, b) for u in ("plain", "flagged") for b in ("X", "Y")]
    seen_verdicts = {}     # bot text -> verdicts it has met on this instance so far
    n = 0
    for conv in itertools.product(alphabet, repeat=turns):
        if conv[0][0] != first:
            continue
        n += 1
        res["conversations"] += 1
        state = {} if version == "2.x" else None
        msgs = []
        for t, (ukind, bkey) in enumerate(conv, 1):
            bot_text = BOT_TEXTS[bkey]
            user_text = f"q{first[0]}{n}t{t} " + (f"what about the {ASK} code" if ukind == "flagged" else "how are you")
            blocked = ukind == "flagged"

            def llm_fn(task_name, prompt, i, bot_text=bot_text):
                if "self_check" in str(task_name):
                    asked = prompt.split("User message:", 1)[1].split("Bot message:", 1)[0]
                    return "Yes" if ASK in asked else "No"
                return f'"{bot_text}"' if version == "2.x" else bot_text

            if version == "2.x":
                turn = rw.run_turn(w, [{"role": "user", "content": user_text}], {}, llm_fn, state=state)
            else:
                msgs = msgs + [{"role": "user", "content": user_text}]
                turn = rw.run_turn(w, msgs, {}, llm_fn)
            res["turns"] += 1
            if seen_verdicts.get(bkey, set()) - {blocked}:
                res["selfcheck_turns_repeating_a_bot_text_with_another_verdict"] += 1
            history = [{"user": u, "bot_text": b} for u, b in conv[:t]]
            info = dict(info0, conversation=n, history=history)
            how = ("same-text-allowed-before" if (False in seen_verdicts.get(bkey, set()) and blocked) else
                   ("same-text-blocked-before" if (True in seen_verdicts.get(bkey, set()) and not blocked) else "no-other-verdict-before"))
            seen_verdicts.setdefault(bkey, set()).add(blocked)

            def bad(sig, what):
                res["viol"].append((f"{sig}:{tag}:{how}", what, info))

            if turn.exc is not None:
                bad("generate-raised", repr(turn.exc))
                break
            reply = turn.text or ""
            checks = [c for c in turn.llm_calls if "self_check_output" in str(c["task"])]
            res["selfcheck_check_prompts_seen"] += len(checks)
            good = [c for c in checks if f'User message: "{user_text}"' in c["prompt"] and f'Bot message: "{bot_text}"' in c["prompt"]]
            if blocked:
                res["rejections"] += 1
                if bot_text in reply:
                    bad("rejected-text-in-reply", f"turn {t} of {history}: the checker blocks the answer to a flagged question; the reply is {reply!r} "
                                                  f"(the checker was asked {len(checks)} time(s) in this turn)")
                    break
                if reply != REFUSAL:
                    bad("reply-is-not-the-refusal", f"turn {t} of {history}: reply {reply!r}")
                    break
            elif reply != bot_text:
                bad("reply-is-not-the-checked-text", f"turn {t} of {history}: nothing to block, expected {bot_text!r}, got {reply!r} (the checker was asked {len(checks)} time(s) in this turn)")
                break
            if len(checks) != 1 or len(good) != 1:
                # (the conversation goes on: a later turn shows what the missing check leads to)
                bad("bot-message-not-submitted-to-the-checker", f"turn {t} of {history}: {len(checks)} self_check_output call(s), {len(good)} of them showing this turn's user and bot message; reply {reply!r}")
            if version == "2.x":
                state = turn.reply.state
            else:
                r = turn.reply if isinstance(turn.reply, dict) else {"role": "assistant", "content": str(turn.text)}
                msgs = msgs + [r]
    seen, uniq = set(), []
    for v in res["viol"]:
        if v[0] not in seen:
            seen.add(v[0])
            uniq.append(v)
    res["viol"] = uniq
    return res


def replay_ctx(rp):
    r = explore_ctx(("ctx", rp["version"], rp["turns"], rp["first"]))
    for sig, what, info in r["viol"]:
        print(sig, "|", what)
    if not r["viol"]:
        print("no violation observed for this world now")
    print("expected: every turn the checker is asked once about this turn's user + bot message; blocked -> refusal, else the bot text")
    return 0
