"""C09's own program set: the shipped Colang 2.x library flows (core / timing / guardrails)
driven with utterance, bot-action and timer events, plus a small mixed grammar.
Only used as a host for the C09 side check (and C11 can reuse the programs)."""
from __future__ import annotations

import itertools
import os

from vf.engines import v2x
from vf.engines.v2x import Explorer

LIB = os.path.join(os.path.dirname(v2x.sm.__file__), "..", "library")


def lib(name):
    src = open(os.path.join(LIB, name + ".co")).read()
    return "\n".join(l for l in src.split("\n") if not l.startswith("import "))


MAINS = {
    "core-dialog": ("""
flow main
  activate tracking bot talking state
  activate tracking user talking state
  activate notification of colang errors
  activate notification of undefined flow start
  activate notification of unexpected user utterance
  activate greeting
  activate farewell

flow greeting
  user said "hi"
  bot say "hello"

flow farewell
  user said "bye" or user said "ciao"
  bot say "bye"
  match Done()
""", ["core"]),
    "core-or-when": ("""
flow main
  activate tracking bot talking state
  when user said "hi"
    bot say "hello"
  or when user said something
    bot inform "what?"
  or when bot said something
    send Noticed()
  match Done()
""", ["core"]),
    "core-undefined-flow": ("""
flow main
  activate notification of undefined flow start
  activate notification of colang errors
  user said something
  start not existing flow
  $x = 1 / 0
  bot say "unreachable"
""", ["core"]),
    "timing-wait": ("""
flow main
  activate tracking bot talking state
  user said "go"
  wait 2.0
  bot say "waited"
  when user was silent 5.0
    bot say "anyone?"
  or when user said something
    bot say "ok"
  match Done()
""", ["core", "timing"]),
    "timing-repeating": ("""
flow main
  activate repeating timer "tick" 1.0
  activate ticking
  user said "stop"
  bot say "stopped"

flow ticking
  match TimerBotAction.Finished()
  send Tick()
""", ["core", "timing"]),
    "guardrails-io": ("""
flow main
  activate handling

flow handling
  user said something
  bot say "answer"

flow input rails $input_text
  $ok = await CheckInputAction(text=$input_text)
  if not $ok
    bot say "refused-in"
    abort

flow output rails $output_text
  $ok = await CheckOutputAction(text=$output_text)
  if not $ok
    bot say "refused-out"
    abort
""", ["core", "guardrails"]),
}

# every notation of a waiting statement on an action event, each watcher in its own interaction loop
# (so that the watchers' `send` statements do not compete), plus reference notation in `holder`
_ZOO_WATCH = [
    ("w_start", "match UtteranceBotAction.Start()", "StartUtteranceBotAction"),
    ("w_stop", "match UtteranceBotAction.Stop()", "StopUtteranceBotAction"),
    ("w_started", "match UtteranceBotAction.Started()", "UtteranceBotActionStarted"),
    ("w_fin", "match UtteranceBotAction.Finished()", "UtteranceBotActionFinished"),
    ("w_upd", "match UtteranceBotAction.ScriptUpdated()", "UtteranceBotActionScriptUpdated"),
    ("w_bare_stop", "match StopUtteranceBotAction()", "StopUtteranceBotAction"),
    ("w_bare_fin", "match UtteranceBotActionFinished()", "UtteranceBotActionFinished"),
    ("w_flow_started", "match helper.Started()", "Go"),
    ("w_flow_finished", "match helper.Finished()", "Go"),
]
ZOO_EXPECT: dict = {}
for _i, (_f, _m, _ev) in enumerate(_ZOO_WATCH):
    ZOO_EXPECT.setdefault(_ev, []).append(f"Seen{_i}")
MAINS["notation-zoo"] = ("flow main\n" + "".join(f"  activate {f}\n" for f, _, _ in _ZOO_WATCH) + """  activate holder
  match Never()

flow helper
  send HelperRan()

@loop("LH")
flow holder
  match Go()
  start helper as $h
  start UtteranceBotAction(script="x") as $a
  when $a.Stop()
    send RefStop()
  or when $a.Finished()
    send RefFinished()
  or when $a.ScriptUpdated()
    send RefUpd()
  or when $h.Finished()
    send RefHelper()

""" + "".join(f'@loop("LW{i}")\nflow {f}\n  {m}\n  send Seen{i}()\n\n' for i, (f, m, _) in enumerate(_ZOO_WATCH)), [])


def zoo_monitor(ex, prev, aev, conc, taken, nxt, pops):
    """A watcher waiting in member notation reacts to the event its statement names."""
    from vf.engines.v2x import Violation

    if not conc or not isinstance(conc, dict):
        return
    got = [e["type"] for e in nxt.state.outgoing_events]
    want = ZOO_EXPECT.get(conc.get("type"), [])
    if conc.get("type") == "Go" and "HelperRan" not in got:
        want = []  # holder was not waiting for Go: the helper flow did not run
    for m in want:
        if m not in got:
            v = Violation("waiting-flow-missed:notation", f"event {conc.get('type')} arrived, the watcher sending {m} did not react (outgoing {got})")
            if len(ex.side_violations.get("C09", [])) < 5:
                ex._record(v, prev, aev, taken, into=ex.side_violations.setdefault("C09", []))
            return
    if want:
        ex.stats.bump("c09_notation_reactions", len(want))


# three interaction loops; the loser of the main loop (p) takes down its child c, the only flow of loop L2, in the same step
for _order in (("z", "p", "q"), ("p", "z", "q"), ("p", "q", "z")):
    MAINS["cascade-three-loops:" + "".join(_order)] = (
        "flow p\n  start c\n  match E(k=1)\n  start ActPAction()\n  match Never()\n\n"
        '@loop("L2")\nflow c\n  match E(k=1, m=2)\n  start ActCAction()\n  match Never()\n\n'
        "flow q\n  match E(k=1, m=2)\n  start ActQAction()\n  match Never()\n\n"
        '@loop("L3")\nflow z\n  match E(k=1)\n  start ActZAction()\n  match E(k=1)\n  send ReplyZ()\n  match Never()\n\n'
        "flow main\n" + "".join(f"  start {f}\n" for f in _order) + "  match Never()\n", [])

# an instance uid chosen by the program (optional argument of StartFlow) that is used a second time
MAINS["instance-uid-used-twice"] = (
    "flow worker\n  match Job()\n  send Done()\n  match Job()\n\n"
    "flow main\n  match Go()\n  send StartFlow(flow_id=\"worker\", flow_instance_uid=\"w1\")\n  match Go()\n"
    "  send StartFlow(flow_id=\"worker\", flow_instance_uid=\"w1\")\n  match Go()\n  send StartFlow(flow_id=\"worker\", flow_instance_uid=\"w2\")\n  match Never()\n", [])

UTTERANCES = ["hi", "bye", "go", "stop", "zzz"]


def alphabet_for(name):
    fixed = [("ext", "UtteranceUserActionFinished", {"final_transcript": u, "is_success": True}) for u in UTTERANCES[: (3 if name != "core-dialog" else 5)]]
    fixed.append(("ext", "Done", {}))
    if name == "core-or-when":
        fixed.append(("ext", "UtteranceUserActionStarted", {}))
    if name == "instance-uid-used-twice":
        fixed = [("ext", "Go", {}), ("ext", "Job", {}), ("ext", "X", {})]
    if name.startswith("cascade-three-loops"):
        fixed = [("ext", "E", {"k": 1, "m": 2}), ("ext", "E", {"k": 1}), ("ext", "X", {})]
    if name == "notation-zoo":
        fixed = [("ext", n, {}) for n in ["Go", "StartUtteranceBotAction", "StopUtteranceBotAction", "ChangeUtteranceBotAction",
                                          "UtteranceBotActionStarted", "UtteranceBotActionFinished", "UtteranceBotActionScriptUpdated"]]

    def alpha(state, node):
        if node.depth == 0:
            return [("start_main",)]
        evs = list(fixed)
        pend = v2x.pending_actions(state)
        for k, a in enumerate(pend[:3]):
            if a.status.name == "STARTING":
                evs.append(("act", k, "Started", {}))
            rv = {}
            if a.name.startswith("Check"):
                evs.append(("act", k, "Finished", {"return_value": True}))
                evs.append(("act", k, "Finished", {"return_value": False}))
                evs.append(("act", k, "Finished", {"return_value": None, "is_success": False}))
            elif a.name == "UtteranceBotAction":
                evs.append(("act", k, "Finished", {"final_script": a.start_event_arguments.get("script", "")}))
            else:
                evs.append(("act", k, "Finished", rv))
        return evs

    return alpha


def explore(task):
    name, depth = task
    if name.startswith("c11:"):
        from vf.props import c11
        src = c11.REF_PROGRAMS.get(name[4:]) or c11.zoo_program(name[4:])

        def alpha(state, node):
            return [("start_main",)] if node.depth == 0 else c11.alphabet(state)

        ex = Explorer(src, alpha, monitors=[], depth=depth, max_states=30000)
        ex.run()
        return v2x.result_of(ex, {"program": name})
    if name.startswith("c04:"):
        from vf.props import c04
        src = c04.REUSED_STATEMENT[name[4:]][0]

        def alpha4(state, node):
            if node.depth == 0:
                return [("start_main",)]
            evs = [("ext", "X", {})]
            for k in range(min(2, len(v2x.pending_actions(state)))):
                evs += [("act", k, "Finished", {}), ("act", k, "Started", {})]
            return evs

        ex = Explorer(src, alpha4, monitors=[], depth=depth, max_states=30000)
        ex.run()
        return v2x.result_of(ex, {"program": name})
    main, libs = MAINS[name]
    ex = Explorer(main, alphabet_for(name), monitors=[zoo_monitor] if name == "notation-zoo" else [], depth=depth, extra_sources=[lib(l) for l in libs], max_states=30000)
    ex.run()
    return v2x.result_of(ex, {"library_program": name, "libs": libs})


def tasks(tier):
    heavy = {"core-dialog": (4, 6), "guardrails-io": (5, 7), "notation-zoo": (4, 5)}
    heavy.update({n: (3, 4) for n in MAINS if n.startswith("cascade-three-loops")})
    heavy["instance-uid-used-twice"] = (6, 7)
    out = []
    for n in MAINS:
        q, t = heavy.get(n, (8, 11))
        out.append((n, q if tier == "quick" else t))
    from vf.props import c04
    for n in c04.REUSED_STATEMENT:
        out.append(("c04:" + n, 5 if tier == "quick" else 7))
    from vf.props import c11
    for n in list(c11.REF_PROGRAMS) + list(c11.ZOO):
        out.append(("c11:" + n, 5 if tier == "quick" else 7))
    return out
