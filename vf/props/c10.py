"""C10 - event processing terminates and a faulty flow fails alone.

Part T (termination): programs whose loops / recursive calls contain a waiting statement - activated
flows that finish or fail immediately, nested activation, while-with-match, recursion through a
match - explored by E1 with a step budget on every run_to_completion.
Part F (fault isolation): a victim flow with a bad expression / pattern injected at every statement
position x how the victim is started x all short event histories, driven through the real
`RuntimeV2_x.process_events`; a bystander flow in its own interaction loop must still react to the
same and to later events, a ColangError must be observable, nothing may escape process_events.
Part G (two-flow fault families, incl. internal events sent with missing / ill-typed arguments), part R (periodic
drives), part X (errors escaping run_to_completion), part P (ping-pong through the event cap).
Part S lives in c10_kinds.py (a faulty expression at every statement kind x every control-flow neighbourhood), parts A / B / Y
in c10_shapes.py (activation in a sheltered position, faulty match inside a group, event shapes around the action-event
naming convention).  Parts E / V / D live in c10_more.py: error texts with special characters x error-reporting flows (library and
`escape(...)` idioms), the same under the library's verbose log handler, parameter defaults that raise x how the
flow is started / restarted.
"""
from __future__ import annotations

import asyncio
import itertools
import signal

from vf import seams
from vf.engines import v2x
from vf.engines.v2x import sm
from vf.engines.v2x import Explorer, Violation

PROP = "C10"


def ind(lines, n=1):
    return "".join("  " * n + l + "\n" for l in lines)


# ----------------------------------------------------------------------------- part T
IMMEDIATE_BODIES = [
    ["send Tick()"],
    ["abort"],
    ["$x = 1/0"],
    ["start ActAAction()"],
    ["start ActAAction()", "abort"],
    ["await h"],
    ["start h"],
    ["activate k"],
    ["when h", "  send M1()", "else", "  send M2()"],
    ["match E1()", "abort"],
    ["match E1()"],
    ["while True", "  match E1()", "  send Tick()"],
    ["match E1()", "await g"],
    ["$i = 0", "while $i < 3", "  $i = $i + 1", "  send Tick()", "match E2()"],
    ["return 1"],
    ["priority \"x\""],
    ["match $undefined.Finished()"],
]
H_BODIES = [["abort"], ["send Tock()"], ["match E2()"], ["$y = None.z"]]
STARTERS = ["activate g", "start g", "await g", "when g\n    send M3()\n  else\n    send M4()", "activate g\n  activate g2"]


# activated flows whose *restarted* instance fails before its first wait (a global changed meanwhile)
SECOND_INSTANCE_BODIES = [
    ["global $d", "start ActAAction()", "$x = 10 / $d", "match E1()", "$d = 0"],
    ["global $d", "$x = 10 / $d", "match E1()", "$d = 0"],
    ["global $d", "start ActAAction()", "if $d == 0", "  abort", "match E1()", "$d = 0"],
    ["global $d", "send Tick()", "$x = 10 / $d", "match E1()", "$d = 0"],
    ["global $d", "await h2", "$x = 10 / $d", "match E1()", "$d = 0"],
    # ... or *finishes* before its first wait: the path through the flow depends on what the first instance changed
    ["global $d", "if $d == 1", "  match E1()", "  $d = 0"],
    ["global $d", "if $d == 1", "  match E1()", "  $d = 0", "send Tick()"],
    ["global $d", "while $d == 1", "  match E1()", "  $d = 0"],
    ["global $d", "if $d == 0", "  return 1", "match E1()", "$d = 0"],
    ["global $d", "start ActAAction()", "if $d == 1", "  match E1()", "  $d = 0"],
    ["global $d", "when E1()", "  $d = 0", "or when Check(d=$d)", "  send Tick()"],
]


def t_programs():
    for gb in SECOND_INSTANCE_BODIES:
        g = "flow g\n" + ind(gb)
        h2 = "flow h2\n" + ind(["send Tock()"])
        for setter in ("main", "other"):
            if setter == "main":
                main = "flow main\n  global $d\n  $d = 1\n  activate g\n  match Never()\n"
                src = g + "\n" + h2 + "\n" + main
            else:
                gg = "flow g\n" + ind([l for l in gb if l.strip() != "$d = 0"] if not any(l.startswith("  ") and l.strip() == "$d = 0" and gb[gb.index(l) - 1].strip().startswith(("if", "while", "when")) for l in gb) else [("  pass" if l.strip() == "$d = 0" else l) for l in gb])
                other = "flow other\n  global $d\n  match E2()\n  $d = 0\n"
                main = "flow main\n  global $d\n  $d = 1\n  activate g\n  activate other\n  match Never()\n"
                src = gg + "\n" + h2 + "\n" + other + "\n" + main
            yield src, {"g": gb, "h": None, "starter": "activate g (second instance fails: " + setter + ")"}
    for gb, hb, starter in itertools.product(IMMEDIATE_BODIES, H_BODIES, STARTERS):
        uses_h = any(" h" in l for l in gb)
        if not uses_h and hb != H_BODIES[0]:
            continue
        g = "flow g\n" + ind(gb)
        g2 = "flow g2\n" + ind(gb) if "g2" in starter else ""
        if "g2" in starter:
            g2 = g2.replace("await g\n", "await g2\n")
        h = "flow h\n" + ind(hb)
        k = "flow k\n" + ind(["abort"])
        main = "flow main\n  " + starter + "\n  match Never()\n"
        yield g + "\n" + g2 + "\n" + h + "\n" + k + "\n" + main, {"g": gb, "h": hb if uses_h else None, "starter": starter}


def explore_t(task):
    src, info, depth = task
    try:
        st0 = v2x.init_state(src)
    except Exception as e:
        return {"counts": {"programs_rejected": 1, "capped": False}, "violations": [], "side": {}, "errors": []}
    n_elements = sum(len(c.elements) for c in st0.flow_configs.values())
    budget = 50 * (n_elements + 10)
    fixed = [("ext", "E1", {}), ("ext", "E2", {}), ("ext", "X", {})]

    def alphabet(state, node):
        if node.depth == 0:
            return [("start_main",)]
        evs = list(fixed)
        for k in range(min(2, len(v2x.pending_actions(state)))):
            evs.append(("act", k, "Finished", {}))
        return evs

    class Mon:
        def __call__(self, ex, prev, aev, conc, taken, nxt, pops):
            ex.stats.extra["max_pops_seen"] = max(ex.stats.extra.get("max_pops_seen", 0), pops)

        def on_exception(self, ex, node, aev, e):
            # an exception escaping run_to_completion is turned into a ColangError by process_events;
            # for the termination part we only record it (part F judges isolation)
            ex.stats.bump("steps_where_exception_escaped_run_to_completion")
            return True

    ex = Explorer(src, alphabet, monitors=[Mon()], depth=depth, budget=budget, max_states=20000)
    try:
        signal.signal(signal.SIGALRM, _alarm)
        signal.alarm(120)
        ex.run()
    except WallClockExceeded:
        ex.violations.append({"signature": "step-budget", "what": "", "replay": {"engine": "E1-v2x", "source": src, "history": [], "detail": {"wall_clock": True}}})
    finally:
        signal.alarm(0)
    for v in ex.violations:
        if v["signature"] == "step-budget":
            kind = "activated" if "activate" in info["starter"] else "started"
            v["signature"] = f"non-termination:{kind}-flow-body={'|'.join(info['g'])[:40]}"
            uses_h = any(l.strip().split()[0] in ("await", "when", "start") and l.strip().endswith((" h", " h2")) for l in info["g"])
            if kind == "activated" and uses_h and (info["h"] in (["send Tock()"],) or any(l.strip().endswith(" h2") for l in info["g"])):
                # activated flow that only waits for a child flow which itself finishes without waiting
                v["signature"] = "non-termination:activated-flow-waiting-only-for-immediately-finishing-child"
            v["what"] = (f"run_to_completion exceeded the step budget {budget} (= 50 x (elements {n_elements} + 10)): "
                         f"flow g = {info['g']}, started by `{info['starter'].splitlines()[0]}`")
    info = dict(info)
    info["budget"] = budget
    r = v2x.result_of(ex, info)
    r["counts"]["max_pops_seen"] = ex.stats.extra.get("max_pops_seen", 0)
    return r



# ----------------------------------------------------------------------------- part R (rounds)
# The bound of the statement depends on the program only - not on the history.  Stationary programs (activated
# flows that restart, with and without the `start_new_flow_instance:` label) are driven with the same period
# of events again and again: the cost of an event (internal events popped by run_to_completion) must stay
# within the program-size budget in every round and must not keep growing from round to round.
LABEL_BODIES = [
    ["match E1()", "send Tick()", "start_new_flow_instance:", "match E2()", "send Tock()"],
    ["match E1()", "start ActAAction()", "start_new_flow_instance:", "match E2()", "start ActBAction()"],
    ["match E1()", "start_new_flow_instance:", "match E2()", "match E1()", "send Tock()"],
    ["match E1()", "match E2()", "start_new_flow_instance:", "match E1()", "send Tock()"],
    ["match E1()", "send Tick()", "start_new_flow_instance:", "await h"],
    ["match E1()", "when E2()", "  send Tick()", "  start_new_flow_instance:", "  match E1()", "or when X()", "  send Tock()"],
    ["match E1()", "send Tick()", "match E2()", "send Tock()"],
    ["match E1() or E2()", "send Tick()"],
    ["await h", "send Tick()"],
    ["start h", "match E1()"],
]
PERIODS = [("E1",), ("E2",), ("E1", "E2"), ("E2", "E1"), ("E1", "E1", "E2"), ("E1", "E2", "X")]
ROUNDS = 10


def r_programs():
    for gb in LABEL_BODIES:
        g = "flow g $p=0\n" + ind(gb)
        h = "flow h\n" + ind(["match E2()"])
        for starter in ("activate g", "activate g\n  activate g $p=1", "activate w"):
            w = "flow w\n" + ind(["activate g", "match Never()"]) if starter == "activate w" else ""
            main = "flow main\n  " + starter + "\n  match Never()\n"
            yield g + "\n" + h + "\n" + w + "\n" + main, {"g": gb, "starter": starter}


def rounds_task(task):
    src, info = task[:2]
    periods, n_rounds = (task[2], task[3]) if len(task) > 2 else (PERIODS, ROUNDS)
    res = {"programs": 0, "drives": 0, "events": 0, "max_pops": 0, "drives_reaching_a_repeated_state": 0, "viol": []}
    try:
        st0 = v2x.init_state(src)
    except Exception as e:
        res["viol"].append(("harness:program-rejected", f"{e!r}", {"engine": "C10-R", "source": src}))
        return res
    res["programs"] = 1
    n_elements = sum(len(c.elements) for c in st0.flow_configs.values())
    budget = 50 * (n_elements + 10)
    for period in periods:
        st = v2x.copy_state(st0)
        rp = {"engine": "C10-R", "prop": "C10", "source": src, "period": list(period), "info": info}
        uid_n = v2x.UIDS.n
        try:
            _pts, uid_n, _pops = v2x.step(st, v2x.resolve_event(st, ("start_main",)), [], 0, budget=budget)
        except BaseException as e:  # part T judges the first steps
            if isinstance(e, (KeyboardInterrupt, SystemExit)):
                raise
            continue
        res["drives"] += 1
        costs, live, keys, bad = [], [], [], None
        for r in range(n_rounds):
            row = []
            for name in period:
                try:
                    _pts, uid_n, pops = v2x.step(st, {"type": name}, [], uid_n, budget=budget)
                except seams.StepBudgetExceeded:
                    bad = ("budget", r, name)
                    break
                except Exception as e:
                    bad = ("raised", r, name, repr(e)[:160])
                    break
                res["events"] += 1
                res["max_pops"] = max(res["max_pops"], pops)
                row.append(pops)
            if bad:
                break
            costs.append(tuple(row))
            live.append(sum(1 for fs in st.flow_states.values() if sm.is_listening_flow(fs)))
            keys.append(v2x.canon_key(st))
            if len(keys) >= 2 and keys[-1] in keys[:-1]:
                res["drives_reaching_a_repeated_state"] += 1
                break   # the state repeats: all later rounds cost the same
        if bad and bad[0] == "budget" and bad[1] >= 1:
            res["viol"].append(("non-termination-trend:event-exceeds-the-program-size-budget-after-earlier-rounds",
                                f"period {period}: event {bad[2]} of round {bad[1] + 1} needed more than {budget} internal events "
                                f"(= 50 x (elements {n_elements} + 10)); earlier rounds cost {costs}; live instances {live}; flow g = {info['g']}, `{info['starter'].splitlines()[0]}`", rp))
        elif bad and bad[0] == "raised" and bad[1] >= 1:
            res["viol"].append(("exception-escaped-run-to-completion-in-a-later-round",
                                f"period {period}: round {bad[1] + 1}, event {bad[2]}: {bad[3]}; flow g = {info['g']}", rp))
        elif not bad and len(costs) >= 6:
            tot = [sum(c) for c in costs]
            if all(tot[i] < tot[i + 1] for i in range(len(tot) - 5, len(tot) - 1)) and all(live[i] < live[i + 1] for i in range(len(live) - 5, len(live) - 1)):
                res["viol"].append(("non-termination-trend:per-event-cost-and-live-instances-grow-with-every-round",
                                    f"period {period}: internal events per round {tot}, live flow instances after each round {live} "
                                    f"(same events every round); flow g = {info['g']}, `{info['starter'].splitlines()[0]}`", rp))
    seen, uniq = set(), []
    for v in res["viol"]:
        if v[0] not in seen:
            seen.add(v[0])
            uniq.append(v)
    res["viol"] = uniq
    return res


# ----------------------------------------------------------------------------- part X (escaping errors)
# process_events is the last line of defence: whatever escapes run_to_completion - here an interpreter-internal
# error injected at a seam (`_finish_flow` raises for the flow `boom`) - is reported as a ColangError event, also
# when the flow reacting to that ColangError runs into the same error again (fault sequences).
X_WATCHERS = {
    "none": "",
    "plain": '@loop("w2")\nflow errwatch2\n  match ColangError()\n  send W2()\n',
    "faulty": '@loop("w2")\nflow errwatch2\n  match ColangError()\n  send W2()\n  start boom\n  send W2After()\n',
    "faulty-twice": '@loop("w2")\nflow errwatch2\n  match ColangError()\n  start boom\n  match ColangError()\n  start boom\n',
}


def x_program(watcher, w_start, pos):
    seq = {"at-start": [], "after-E1": ["match E1()"]}[pos]
    victim = "flow victim\n" + ind(seq + ["start boom", "send VictimAfter()", "match Never()"])
    boom = "flow boom\n  send Tick()\n"
    main = "flow main\n" + (f"  {w_start} errwatch2\n" if watcher != "none" else "") + "  start victim\n  match Never()\n"
    return "\n".join([victim, boom, X_WATCHERS[watcher], main])


class _InjectedInternalError(Exception):
    pass


def x_task(task):
    watcher, w_start, pos, maxlen = task
    src = x_program(watcher, w_start, pos)
    res = {"programs": 1, "histories": 0, "events": 0, "injected_errors": 0, "viol": []}
    info0 = {"engine": "C10-X", "source": src, "watcher": watcher, "watcher_start": w_start, "position": pos}
    try:
        rt = _runtime(src)
    except Exception as e:
        res["viol"].append(("harness:program-rejected", f"{e!r}", info0))
        return res
    n_elements = sum(len(c.elements) for c in rt.flow_configs.values())
    budget = 50 * (n_elements + 10)
    orig = sm._finish_flow
    count = [0]

    def faulty_finish(state, flow_state, *a, **k):
        if flow_state.flow_id == "boom":
            count[0] += 1
            raise _InjectedInternalError("injected interpreter error while finishing flow boom")
        return orig(state, flow_state, *a, **k)

    sm._finish_flow = faulty_finish
    loop = asyncio.new_event_loop()
    alpha = [{"type": "E1"}, {"type": "X"}]
    try:
        for n in range(0, maxlen + 1):
            for hist in itertools.product(alpha, repeat=n):
                res["histories"] += 1
                res["events"] += n
                info = dict(info0, history=[h["type"] for h in hist])
                count[0] = 0
                try:
                    signal.signal(signal.SIGALRM, _alarm)
                    signal.alarm(30)
                    outs, state = run_history(rt, hist, loop, budget)
                except (seams.StepBudgetExceeded, WallClockExceeded) as e:
                    res["viol"].append((f"non-termination:after-escaping-error:{watcher}", f"{type(e).__name__} {e}; history {info['history']}", info))
                    loop.close()
                    loop = asyncio.new_event_loop()
                    break
                except Exception as e:
                    res["viol"].append((f"exception-escapes-process_events:after-{'second-' if count[0] > 1 else ''}escaping-error:{watcher}",
                                        f"{type(e).__name__}: {e}; history {info['history']}; errors injected {count[0]}", info))
                    continue
                finally:
                    signal.alarm(0)
                res["injected_errors"] += count[0]
                flat = [o for step in outs for o in step]
                reached = pos == "at-start" or "E1" in info["history"]
                if reached and count[0] == 0:
                    res["viol"].append(("harness:injected-error-not-reached", f"history {info['history']} outputs {outs}", info))
                if reached and watcher == "plain" and "W2" not in flat:  # (a faulty watcher's own output is discarded with the step that raised)
                    res["viol"].append((f"colang-error-not-reported:escaping-error:{watcher}",
                                        f"an error escaped run_to_completion but the flow matching ColangError did not react; history {info['history']} outputs {outs}", info))
    finally:
        sm._finish_flow = orig
        loop.close()
    seen, uniq = set(), []
    for v in res["viol"]:
        if v[0] not in seen:
            seen.add(v[0])
            uniq.append(v)
    res["viol"] = uniq
    return res


class WallClockExceeded(BaseException):
    pass


def _alarm(*_a):
    raise WallClockExceeded("wall clock back-stop")


# ----------------------------------------------------------------------------- part F
FAULTS = {
    # name: (statement lines, class: slide | match)
    "div-zero-assign": (["$x = 1/0"], "slide"),
    "unknown-function": (["$x = nofunc(1)"], "slide"),
    "attr-of-none": (["$n = None", "$x = $n.attr"], "slide"),
    "bad-priority": (['priority "x"'], "slide"),
    "bad-send-argument": (["send Ev(p=1/0)"], "slide"),
    "bad-action-argument": (["start ActAAction(p=1/0)"], "slide"),
    "bad-flow-argument": (["await helper (1/0)"], "slide"),
    "too-many-flow-arguments": (["start helper 1 2 3"], "slide"),
    "too-many-flow-arguments-await": (["await helper 1 2 3"], "slide"),
    "invalid-action-event": (["start UtteranceBotAction(script=None)"], "slide"),
    "invalid-action-event-await": (["$n = None", "await UtteranceBotAction(script=$n)"], "slide"),
    # a faulty expression in a decorator of the flow (evaluated when the flow finishes)
    "bad-meta-tag-expression": (['@meta(bot_intent="{$undefined_var.x}")'], "slide"),
    "bad-meta-tag-expression-user-intent": (['@meta(user_intent="{1/0}")'], "slide"),
    "one-surplus-flow-argument": (["start helper 1 2"], "slide"),
    "one-surplus-flow-argument-await": (["await helper(1, 2)"], "slide"),
    "bad-if-condition": (["if 1/0", "  send Never1()"], "slide"),
    # the error sits in ANOTHER flow's header and is evaluated when that flow is started / finishes on behalf of the victim
    "faulty-default-of-a-started-flow": (["start helperbad"], "slide"),
    "faulty-default-of-an-awaited-flow": (["await helperbad"], "slide"),
    "bad-intent-tag-evaluated-for-a-child-action-flow": (['@meta(bot_intent="{1/0}")', "await actionchild"], "slide"),
    "invalid-regex-pattern": (['match {EV}(p=regex("("))'], "match"),
    "comparison-type-error": (["match {EV}(p=less_than(3))"], "match"),
    # raises when the head *arrives* at the statement (the waiting statement cannot be registered)
    "unknown-variable-in-match": (["match $nope.Finished()"], "slide"),
    "match-argument-error": (["match {EV}(p=1/0)"], "match"),
}
POSITIONS = ["at-start", "after-E1", "after-E2"]
VICTIM_STARTS = ["start victim", "activate victim", "await wrapper"]


def f_program(fault, pos, vstart):
    lines, cls = FAULTS[fault]
    # the event the faulty *match* listens to is the next one in the victim's sequence
    ev = {"at-start": "E1", "after-E1": "E2", "after-E2": "E3"}[pos]
    lines = [l.replace("{EV}", ev) for l in lines]
    seq = {"at-start": [], "after-E1": ["match E1()"], "after-E2": ["match E1()", "match E2()"]}[pos]
    decorators = [l for l in lines if l.startswith("@")]
    if decorators:
        # the decorated victim simply finishes after its sequence (that is when the tag is evaluated)
        victim = "\n".join(decorators) + "\nflow victim\n" + ind(seq + [l for l in lines if not l.startswith("@")] + ["send VictimBody()"])
    else:
        victim = "flow victim\n" + ind(seq + lines + ["send VictimAfter()", "match Never()"])
    helper = ("flow helper $a\n  match Never()\n\nflow helperbad $a=1/0\n  match Never()\n\n"
              "@meta(bot_action=True)\nflow actionchild\n  send ChildRan()\n")
    wrapper = "flow wrapper\n  await victim\n  send WrapperAfter()\n"
    by = '@loop("by")\nflow bystander\n  match E1()\n  send By1()\n  match E2()\n  send By2()\n  match E3()\n  send By3()\n  match Never()\n'
    watch = '@loop("watch")\nflow errwatch\n  match ColangError()\n  send ErrSeen()\n'
    # A flow whose child fails while it is being started / awaited fails too (language semantics), so
    # the victim is launched below a `when ... else` of main: main and its other children survive.
    launcher = "flow launcher\n  " + vstart + "\n  match Never()\n"
    main = ("flow main\n  activate errwatch\n  start bystander\n  when launcher\n    send L1()\n  else\n    send L2()\n"
            "  match Never()\n")
    return "\n".join([victim, helper, wrapper, by, watch, launcher, main])


_RT_CACHE = {}


def _runtime(src):
    from nemoguardrails import RailsConfig
    from nemoguardrails.colang.v2_x.runtime.runtime import RuntimeV2_x

    cfg = RailsConfig.from_content(colang_content=src, yaml_content='colang_version: "2.x"\n')
    return RuntimeV2_x(cfg)


def run_history(rt, events, loop, budget=None):
    """Feed events one process_events call each; returns list of output type lists or raises."""
    state = None
    outs = []
    UID0 = 0
    v2x.UIDS.n = UID0
    v2x.CHOICE.begin([])
    for ev in [None] + list(events):
        evs = [] if ev is None else [dict(ev)]
        seams.CountingDeque.pops = 0
        seams.CountingDeque.budget = budget
        try:
            out, state = loop.run_until_complete(rt.process_events(evs, state))
        finally:
            seams.CountingDeque.budget = None
        outs.append([e["type"] for e in out])
    return outs, state


def fault_task(task):
    fault, pos, vstart, maxlen = task
    src = f_program(fault, pos, vstart)
    res = {"programs": 1, "histories": 0, "events": 0, "fault_reached": 0, "viol": [], "bystander_reactions": 0}
    info0 = {"engine": "C10-F", "source": src, "fault": fault, "position": pos, "victim_start": vstart}
    try:
        rt = _runtime(src)
    except Exception as e:
        res["viol"].append((f"program-rejected:{fault}", f"{e!r}", info0))
        return res
    cls = FAULTS[fault][1]
    n_elements = sum(len(c.elements) for c in rt.flow_configs.values())
    budget = 50 * (n_elements + 10)
    hung = False
    loop = asyncio.new_event_loop()
    # events; E-events carry p="x" so that comparison patterns are evaluated against a string
    alpha = [{"type": "E1", "p": "x"}, {"type": "E2", "p": "x"}, {"type": "E3", "p": "x"}, {"type": "X"}]
    try:
        for n in range(1, maxlen + 1):
            for hist in itertools.product(alpha, repeat=n):
                if hung:
                    break
                res["histories"] += 1
                res["events"] += n
                info = dict(info0, history=[h["type"] for h in hist])
                try:
                    signal.signal(signal.SIGALRM, _alarm)
                    signal.alarm(30)
                    outs, state = run_history(rt, hist, loop, budget)
                except (seams.StepBudgetExceeded, WallClockExceeded) as e:
                    res["viol"].append((f"non-termination:{vstart.split()[0]}-victim:{fault}:{pos}",
                                        f"process_events: one run_to_completion exceeded the step budget {budget} "
                                        f"(victim with `{FAULTS[fault][0][-1]}` {pos}, started by `{vstart}`): {type(e).__name__} {e}", info))
                    hung = True
                    loop.close()
                    loop = asyncio.new_event_loop()
                    continue
                except Exception as e:  # escaping the event processing API
                    res["viol"].append((f"exception-escapes-process_events:{cls}:{fault}", f"{type(e).__name__}: {e}", info))
                    continue
                finally:
                    signal.alarm(0)
                # ---- reference model
                by = 0       # bystander progress
                vic = {"at-start": 0, "after-E1": 1, "after-E2": 2}[pos]  # events the victim needs before the fault
                vprog = 0
                reached_at = 0 if (vic == 0 and cls == "slide") else None
                # a faulty *match* is evaluated when the event it names arrives
                trigger = {"at-start": "E1", "after-E1": "E2", "after-E2": "E3"}[pos]
                for i, h in enumerate(hist, start=1):
                    t = h["type"]
                    exp_by = []
                    if by < 3 and t == f"E{by + 1}":
                        by += 1
                        exp_by = [f"By{by}"]
                    got_by = [o for o in outs[i] if o.startswith("By")]
                    if exp_by:
                        res["bystander_reactions"] += 1
                    if got_by != exp_by:
                        res["viol"].append((
                            f"bystander-disturbed:{cls}:{fault}",
                            f"fault `{FAULTS[fault][0][-1]}` in victim ({pos}, {vstart}); history {[x['type'] for x in hist]}: "
                            f"on event #{i} {t} the unrelated flow emitted {got_by}, expected {exp_by}", info))
                        break
                    if reached_at is None:
                        if vprog < vic and t == f"E{vprog + 1}":
                            vprog += 1
                            if vprog == vic and cls == "slide":
                                reached_at = i
                        elif vprog == vic and cls == "match" and t == trigger:
                            reached_at = i
                else:
                    flat = [o for step in outs for o in step]
                    if "VictimAfter" in flat and not (cls == "match" and fault in ("unknown-variable-in-match",) and False):
                        # statements after the faulty one must never run in the failing instance
                        if reached_at is not None:
                            res["viol"].append((f"victim-continued-after-fault:{fault}", f"VictimAfter emitted; outputs {outs}", info))
                    if reached_at is not None:
                        res["fault_reached"] += 1
                        seen_before = any("ErrSeen" in outs[j] for j in range(0, reached_at))
                        seen_at = "ErrSeen" in outs[reached_at]
                        if not seen_at:
                            res["viol"].append((
                                f"colang-error-not-reported:{cls}:{fault}",
                                f"fault `{FAULTS[fault][0][-1]}` reached at step {reached_at} of {[x['type'] for x in hist]} but no ColangError "
                                f"was observable by a flow matching it (outputs {outs})", info))
                        if seen_before:
                            res["viol"].append((f"colang-error-too-early:{fault}", f"ErrSeen before the fault was reached: {outs}", info))
                    else:
                        if any("ErrSeen" in o for o in outs):
                            res["viol"].append((f"colang-error-without-fault:{fault}", f"ErrSeen although the faulty statement was never reached: {outs}", info))
    finally:
        loop.close()
    # keep one violation per signature
    seen, uniq = set(), []
    for v in res["viol"]:
        if v[0] not in seen:
            seen.add(v[0])
            uniq.append(v)
    res["viol"] = uniq
    return res



# ----------------------------------------------------------------------------- part G
# Faults that need a second flow to show: a child of the faulty flow waiting for the same event, a flow event
# (FlowStarted / FlowFinished / FlowFailed) as the subject of the faulty match, an argument that turns faulty
# between the moment the head reached its `send` and the resolution of the action conflict, an event sent without
# an optional argument.  Every program has the same bystander / error watcher as part F; all histories over
# {E1, E2, X} up to the length bound go through process_events.
_G_BY = '@loop("by")\nflow bystander\n  match E1()\n  send By1()\n  match E2()\n  send By2()\n  match E3()\n  send By3()\n  match Never()\n'
_G_WATCH = '@loop("watch")\nflow errwatch\n  match ColangError()\n  send ErrSeen()\n'


def _g_main(body):
    return "flow main\n  activate errwatch\n  start bystander\n" + ind(body) + "  match Never()\n"


def g_programs():
    out = []
    # (a) the faulty flow has a running child that waits for an event of the same name
    for fault in ('regex("(")', "less_than(3)", "1/0"):
        for how_child in ("start vchild", "activate vchild", "start vchild\n  start vchild2"):
            for vstart in ("start victim", "activate victim"):
                src = ("flow vchild\n  match E1()\n  send VChild()\n  match Never()\n\nflow vchild2\n  match E1(p=\"x\")\n  match Never()\n\n"
                       f"flow victim\n  {how_child}\n  match E1(p={fault})\n  send VictimAfter()\n  match Never()\n\n"
                       "flow launcher\n  " + vstart + "\n  match Never()\n\n" + _G_BY + "\n" + _G_WATCH + "\n"
                       + _g_main(["when launcher", "  send L1()", "else", "  send L2()"]))
                out.append((f"child-waits-for-same-event:{fault}:{how_child.split()[0]}{'2' if 'vchild2' in how_child else ''}:{vstart.split()[0]}", src, "E1"))
    # (b) the faulty match is on a flow event; `ticker` finishes on E1, `failer` fails on E2
    for kind in ("FlowFinished", "FlowFailed", "FlowStarted"):
        for fault in ("1/0", "$names[1]"):
            for vstart in ("start victim", "activate victim"):
                src = ("flow ticker\n  match E1()\n\nflow failer\n  match E2()\n  abort\n\n"
                       f"flow victim\n  $names = [\"ticker\"]\n  match {kind}(flow_id={fault})\n  send VictimAfter()\n  match Never()\n\n"
                       "flow launcher\n  " + vstart + "\n  match Never()\n\n" + _G_BY + "\n" + _G_WATCH + "\n"
                       + _g_main(["activate ticker", "activate failer", "when launcher", "  send L1()", "else", "  send L2()"]))
                out.append((f"faulty-match-on-flow-event:{kind}:{fault}:{vstart.split()[0]}", src, None))
    # (c) the argument of a `send` is fine when the head arrives and faulty when the action conflict is resolved
    for order in ("a-first", "b-first"):
        fa = "flow a\n  global $items\n  match E1()\n  send Foo(item=$items[0])\n"
        fb = "flow b\n  global $items\n  match E1()\n  $items = []\n  send Bar()\n"
        acts = ["activate a", "activate b"] if order == "a-first" else ["activate b", "activate a"]
        src = fa + "\n" + fb + "\n" + _G_BY + "\n" + _G_WATCH + "\n" + "flow main\n  global $items\n  $items = [\"x\"]\n  activate errwatch\n  start bystander\n" + ind(acts) + "  match Never()\n"
        out.append((f"argument-turns-faulty-before-conflict-resolution:{order}", src, None))
    # (d) internal events sent without their optional arguments
    for stmt in ('send StartFlow(flow_id="helper")', 'send StopFlow(flow_id="helper")', 'send FinishFlow(flow_id="helper")',
                 'send StartFlow(flow_id="nosuchflow")', 'send StopFlow(flow_id="nosuchflow")'):
        src = ("flow helper\n  match E2()\n  send HelperDone()\n\n" + f"flow a\n  match E1()\n  {stmt}\n  match Never()\n\n"
               + _G_BY + "\n" + _G_WATCH + "\n" + _g_main(["activate a"]))
        out.append((f"internal-event-without-optional-arguments:{stmt.split('(')[0].split()[1]}:{'unknown-flow' if 'nosuch' in stmt else 'helper'}", src, None))
    # (e) internal events sent without a required argument or with an argument of the wrong type: `send` accepts them,
    #     the error is raised when the queued event is taken from the internal queue
    for ev in INTERNAL_EVENT_NAMES:
        for label, args in ILL_FORMED_ARGUMENTS:
            if ev == "StartFlow" and label.endswith("-and-no-flow_id"):
                continue  # (= flow_id-missing)
            src = ("flow helper\n  match E2()\n  send HelperDone()\n\n" + f"flow a\n  match E1()\n  send {ev}({args})\n  match Never()\n\n"
                   + _G_BY + "\n" + _G_WATCH + "\n" + _g_main(["activate a", "activate helper"]))
            out.append((f"internal-event-with-ill-formed-arguments:{ev}:{label}", src, None))
    return out


INTERNAL_EVENT_NAMES = ("StartFlow", "StopFlow", "FinishFlow", "FlowStarted", "FlowFinished", "FlowFailed", "UnhandledEvent")
ILL_FORMED_ARGUMENTS = [
    ("no-arguments", ""),
    ("flow_id-missing", 'flow_instance_uid="nosuch"'),
    ("flow_id-unhashable", "flow_id={}"),
    ("flow_id-unhashable", "flow_id=[1]"),
    ("flow_id-not-a-string", "flow_id=1"),
    ("flow_id-not-a-string", "flow_id=None"),
    ("flow_instance_uid-unhashable", 'flow_id="helper", flow_instance_uid={}'),
    ("flow_instance_uid-unhashable", 'flow_id="helper", flow_instance_uid=[1]'),
    ("flow_instance_uid-not-a-string", 'flow_id="helper", flow_instance_uid=1'),
    ("flow_instance_uid-not-a-string", 'flow_id="helper", flow_instance_uid=None'),
    ("flow_instance_uid-unhashable-and-no-flow_id", "flow_instance_uid={}"),
    ("flow_instance_uid-not-a-string-and-no-flow_id", "flow_instance_uid=1"),
]


def g_task(task):
    name, src, err_on, maxlen = task
    res = {"programs": 1, "histories": 0, "events": 0, "bystander_reactions": 0, "viol": []}
    info0 = {"engine": "C10-F", "source": src, "family": name}
    desc = ""
    if name.startswith("internal-event-with-ill-formed-arguments:"):
        stmt = next((l.strip() for l in src.splitlines() if l.strip().startswith("send " + name.split(":")[1] + "(")), "")
        desc = f"flow a reacts to E1 with `{stmt}`; "
    try:
        rt = _runtime(src)
    except Exception as e:
        res["viol"].append((f"program-rejected:{name}", f"{e!r}", info0))
        return res
    n_elements = sum(len(c.elements) for c in rt.flow_configs.values())
    budget = 50 * (n_elements + 10)
    loop = asyncio.new_event_loop()
    alpha = [{"type": "E1", "p": "x"}, {"type": "E2", "p": "x"}, {"type": "E3", "p": "x"}, {"type": "X"}]
    hung = False
    try:
        for n in range(0, maxlen + 1):
            for hist in itertools.product(alpha, repeat=n):
                if hung:
                    break
                res["histories"] += 1
                res["events"] += n
                info = dict(info0, history=[h["type"] for h in hist])
                try:
                    signal.signal(signal.SIGALRM, _alarm)
                    signal.alarm(30)
                    outs, _state = run_history(rt, hist, loop, budget)
                except (seams.StepBudgetExceeded, WallClockExceeded) as e:
                    res["viol"].append((f"non-termination:{name}", f"process_events: one run_to_completion exceeded the step budget {budget}: {type(e).__name__} {e}", info))
                    hung = True
                    loop.close()
                    loop = asyncio.new_event_loop()
                    continue
                except Exception as e:
                    res["viol"].append((f"exception-escapes-process_events:{name}", f"{desc}{type(e).__name__}: {e}", info))
                    continue
                finally:
                    signal.alarm(0)
                by = 0
                for i, h in enumerate(hist, start=1):
                    exp_by = []
                    if by < 3 and h["type"] == f"E{by + 1}":
                        by += 1
                        exp_by = [f"By{by}"]
                        res["bystander_reactions"] += 1
                    got_by = [o for o in outs[i] if o.startswith("By")]
                    if got_by != exp_by:
                        res["viol"].append((f"bystander-disturbed:{name}", f"{desc}history {[x['type'] for x in hist]}: on event #{i} {h['type']} the unrelated flow emitted {got_by}, expected {exp_by}", info))
                        break
                else:
                    if err_on is not None:
                        k = next((i for i, h in enumerate(hist, start=1) if h["type"] == err_on), None)
                        if k is not None and "ErrSeen" not in outs[k]:
                            res["viol"].append((f"colang-error-not-reported:{name}", f"history {[x['type'] for x in hist]}: the faulty match is evaluated on event #{k} but no ColangError was observable (outputs {outs})", info))
                        if k is not None and any("VictimAfter" in o for o in outs):
                            res["viol"].append((f"victim-continued-after-fault:{name}", f"VictimAfter emitted; outputs {outs}", info))
    finally:
        loop.close()
    seen, uniq = set(), []
    for v in res["viol"]:
        if v[0] not in seen:
            seen.add(v[0])
            uniq.append(v)
    res["viol"] = uniq
    return res



# ----------------------------------------------------------------------------- part P
# Flows that react to each other's outgoing events: every single run_to_completion is short, but the event-processing
# API feeds emitted events back as input events - one call must still return within its cap (runtime.max_events) and
# the runtime must go on serving later events.
PINGPONG = {
    "two-flows": ("flow ping\n  match StartUtteranceBotAction(script=\"pong\")\n  send StartUtteranceBotAction(script=\"ping\")\n\n"
                  "flow pong\n  match StartUtteranceBotAction(script=\"ping\")\n  send StartUtteranceBotAction(script=\"pong\")\n\n"
                  "flow main\n  activate ping\n  activate pong\n  activate witness\n  match Go()\n  send StartUtteranceBotAction(script=\"ping\")\n  match Never()\n"),
    "self-echo": ("flow echo\n  match TickAction.Start()\n  send StartTickAction()\n\n"
                  "flow main\n  activate echo\n  activate witness\n  match Go()\n  send StartTickAction()\n  match Never()\n"),
    "three-cycle": ("flow a\n  match StartCAction()\n  send StartAAction()\n\nflow b\n  match StartAAction()\n  send StartBAction()\n\nflow c\n  match StartBAction()\n  send StartCAction()\n\n"
                    "flow main\n  activate a\n  activate b\n  activate c\n  activate witness\n  match Go()\n  send StartAAction()\n  match Never()\n"),
}
_P_WITNESS = '@loop("w")\nflow witness\n  match Later()\n  send StillAlive()\n'


def pingpong_task(task):
    name, cap = task
    src = PINGPONG[name] + "\n" + _P_WITNESS
    res = {"programs": 1, "calls": 0, "events_returned": 0, "viol": []}
    info = {"engine": "C10-F", "source": src, "history": ["Go", "Later"], "family": "ping-pong:" + name, "max_events": cap}
    try:
        rt = _runtime(src)
    except Exception as e:
        res["viol"].append((f"program-rejected:ping-pong:{name}", repr(e), info))
        return res
    if cap is not None:
        rt.max_events = cap
    bound = rt.max_events
    loop = asyncio.new_event_loop()
    try:
        signal.signal(signal.SIGALRM, _alarm)
        signal.alarm(60)
        outs, _state = run_history(rt, [{"type": "Go"}, {"type": "Later"}], loop, 200000)
        res["calls"] = 3
        res["events_returned"] = sum(len(o) for o in outs)
        if len(outs[1]) > bound + 5:
            res["viol"].append((f"event-cap-exceeded:ping-pong:{name}", f"one process_events call returned {len(outs[1])} events, cap max_events={bound}", info))
        if "StillAlive" not in outs[2]:
            res["viol"].append((f"bystander-disturbed:ping-pong:{name}", f"after the capped call the witness did not react to the next event: {outs[2][:5]}", info))
    except (seams.StepBudgetExceeded, WallClockExceeded) as e:
        res["viol"].append((f"non-termination:ping-pong:{name}", f"process_events did not return within 60 s / the step budget (max_events={bound}): {type(e).__name__}", info))
    except Exception as e:
        res["viol"].append((f"exception-escapes-process_events:ping-pong:{name}", f"{type(e).__name__}: {e}", info))
    finally:
        signal.alarm(0)
        loop.close()
    return res


ACTIVE_BODIES = [["abort"], ["$x = 1/0"], ["start ActAAction()", "abort"], ["start ActAAction()", "$x = 1/0"], ["send Tick()", "$x = 1/0"],
                 ["send Tick()"], ["match E1()", "abort"], ['priority "x"'], ["start ActAAction()", "match $nope.Finished()"]]


def active_task(body):
    """module-level `@active` flows are started by process_events itself (nobody awaits their start)"""
    src = "@active\nflow g\n" + ind(body) + "\n" + '@loop("by")\nflow bystander\n  match E1()\n  send By1()\n  match E2()\n  send By2()\n  match Never()\n' \
          + "\nflow main\n  start bystander\n  match Never()\n"
    res = {"programs": 1, "histories": 0, "viol": []}
    info = {"engine": "C10-F", "source": src, "history": []}
    try:
        rt = _runtime(src)
    except Exception as e:
        res["viol"].append((f"program-rejected:active:{'|'.join(body)[:30]}", repr(e), info))
        return res
    n_elements = sum(len(c.elements) for c in rt.flow_configs.values())
    budget = 50 * (n_elements + 10)
    for hist in ([], ["E1"], ["E1", "E2"], ["X", "E1", "E2"]):
        res["histories"] += 1
        loop = asyncio.new_event_loop()
        info = {"engine": "C10-F", "source": src, "history": hist}
        try:
            signal.signal(signal.SIGALRM, _alarm)
            signal.alarm(30)
            outs, _ = run_history(rt, [{"type": t} for t in hist], loop, budget)
            want = [o for o in (["By1"] if "E1" in hist else []) + (["By2"] if hist[-2:] == ["E1", "E2"] else [])]
            got = [o for step in outs for o in step if o.startswith("By")]
            if got != want:
                res["viol"].append((f"bystander-disturbed:active-flow:{'|'.join(body)[:30]}", f"@active flow g = {body}; history {hist}: bystander emitted {got}, expected {want}", info))
        except (seams.StepBudgetExceeded, WallClockExceeded) as e:
            res["viol"].append((f"non-termination:active-flow-body={'|'.join(body)[:40]}",
                                f"process_events exceeded the step budget {budget} for an `@active` flow g = {body} (history {hist}): {type(e).__name__}", info))
            break
        except Exception as e:
            res["viol"].append((f"exception-escapes-process_events:active-flow:{'|'.join(body)[:30]}", f"{type(e).__name__}: {e}", info))
        finally:
            signal.alarm(0)
            loop.close()
    return res


def run(rep, tier):
    from vf import par
    from vf.e1run import run_e1
    import vf.props.c10 as me

    rep.assumptions += [
        "step budget per run_to_completion: 50 x (number of compiled elements + 10) internal events (counting deque), 120 s wall-clock back-stop",
        "bystander and error watcher live in their own named interaction loops (a `send` in the victim's loop would legitimately compete)",
        "fault kinds: " + ", ".join(FAULTS) + "; positions: " + ", ".join(POSITIONS) + "; victim started by: " + ", ".join(VICTIM_STARTS),
    ]
    # ---- part T through the generic E1 driver
    run_e1(rep, me, tier)
    # ---- part F
    maxlen = 3 if tier == "quick" else 4
    ts = [(f, p, s, maxlen) for f in FAULTS for p in POSITIONS for s in VICTIM_STARTS
          # (an activated flow that ends without ever waiting is parked, not finished: its meta tags are not evaluated)
          if not (f.startswith("bad-meta-tag") and p == "at-start" and s == "activate victim")
          # (an activated flow that only waits for a child that finishes at once is the recorded non-termination class)
          and not (f == "bad-intent-tag-evaluated-for-a-child-action-flow" and p == "at-start" and s == "activate victim")]
    agg = {"programs": 0, "histories": 0, "events": 0, "fault_reached": 0, "bystander_reactions": 0}
    for r in par.pmap(fault_task, ts):
        for k in agg:
            agg[k] += r[k]
        for sig, what, info in r["viol"]:
            rep.violation(sig, what, info)
    rr = {"programs": 0, "drives": 0, "events": 0, "max_pops": 0, "drives_reaching_a_repeated_state": 0}
    if tier == "quick":
        rts = list(r_programs())
    else:  # every period of length <= 3 over {E1, E2, X}, more rounds
        allp = [p for n in (1, 2, 3) for p in itertools.product(("E1", "E2", "X"), repeat=n)]
        rts = [(src, info, allp, 14) for src, info in r_programs()]
    rep.set("rounds_periods", len(PERIODS) if tier == "quick" else len(allp))
    for r in par.pmap(rounds_task, rts):
        for k in rr:
            rr[k] = max(rr[k], r[k]) if k == "max_pops" else rr[k] + r[k]
        for sig, what, info in r["viol"]:
            rep.violation(sig, what, info)
    for k, v in rr.items():
        rep.set("rounds_" + k, v)
    xs = {"programs": 0, "histories": 0, "events": 0, "injected_errors": 0}
    xt = [(w, ws, pos, 2 if tier == "quick" else 3) for w in X_WATCHERS for ws in (("start", "activate") if w != "none" else ("start",)) for pos in ("at-start", "after-E1")]
    for r in par.pmap(x_task, xt):
        for k in xs:
            xs[k] += r[k]
        for sig, what, info in r["viol"]:
            rep.violation(sig, what, info)
    for k, v in xs.items():
        rep.set("escaping_error_" + k, v)
    gs = {"programs": 0, "histories": 0, "events": 0, "bystander_reactions": 0}
    gts = [(n, src, err_on, 2 if tier == "quick" else 3) for n, src, err_on in g_programs()
           # (quick: the flow events FlowStarted / ... / UnhandledEvent only without arguments and with an ill-typed flow_id)
           if not (tier == "quick" and n.startswith("internal-event-with-ill-formed-arguments:") and n.split(":")[1] not in ("StartFlow", "StopFlow", "FinishFlow")
                   and n.split(":")[2] not in ("no-arguments", "flow_id-not-a-string"))]
    for r in par.pmap(g_task, gts):
        for k in gs:
            gs[k] += r[k]
        for sig, what, info in r["viol"]:
            rep.violation(sig, what, info)
    for k, v in gs.items():
        rep.set("two_flow_fault_" + k, v)
    agg["bystander_reactions"] += gs["bystander_reactions"]
    pp = {"programs": 0, "calls": 0, "events_returned": 0}
    for r in par.pmap(pingpong_task, [(n, c) for n in PINGPONG for c in (None, 40)]):
        for k in pp:
            pp[k] += r[k]
        for sig, what, info in r["viol"]:
            rep.violation(sig, what, info)
    for k, v in pp.items():
        rep.set("ping_pong_" + k, v)
    act = {"programs": 0, "histories": 0}
    for r in par.pmap(active_task, ACTIVE_BODIES):
        act["programs"] += r["programs"]; act["histories"] += r["histories"]
        for sig, what, info in r["viol"]:
            rep.violation(sig, what, info)
    # ---- parts E / V / D (error texts with special characters, verbose mode, faulty parameter defaults)
    from vf.props import c10_more
    more = c10_more.run_more(rep, tier, par)
    for a in more.values():
        agg["events"] += a.get("events", 0)
        agg["fault_reached"] += a.get("fault_reached", 0)
        agg["bystander_reactions"] += a.get("bystander_reactions", 0)
    # ---- part S (a faulty expression at every statement kind x every control-flow neighbourhood)
    from vf.props import c10_kinds
    sk = c10_kinds.run_kinds(rep, tier, par)
    agg["events"] += sk["events"]
    agg["fault_reached"] += sk["fault_reached"]
    agg["bystander_reactions"] += sk["bystander_reactions"]
    # ---- parts A / B / Y (activation in a sheltered position, faulty match inside a group, event shapes)
    from vf.props import c10_shapes
    sh = c10_shapes.run_shapes(rep, tier, par)
    for a in sh.values():
        agg["events"] += a.get("events", 0)
        agg["bystander_reactions"] += a.get("bystander_reactions", 0)
    rep.set("active_flow_programs", act["programs"])
    rep.set("active_flow_histories", act["histories"])
    rep.set("fault_programs", agg["programs"])
    rep.set("fault_histories", agg["histories"])
    rep.set("fault_events_processed", agg["events"])
    rep.set("histories_in_which_fault_was_reached", agg["fault_reached"])
    rep.set("bystander_reactions_checked", agg["bystander_reactions"])
    rep.set("rule", "termination: every (activated-flow body x helper body x starter) program, all histories to the depth; isolation: every fault kind x position x start form, all histories up to the length; non-trivial = histories in which the faulty statement was actually reached")
    rep.set("distinct_nontrivial", agg["fault_reached"])
    rep.set("evaluations", rep.cov.get("transitions", 0) + agg["events"])
    rep.sample({"fault_program": f_program("comparison-type-error", "after-E1", "start victim")})


def tasks(tier):
    depth = 3 if tier == "quick" else 4
    return [(src, info, depth) for src, info in t_programs()]


explore = explore_t


def replay(rp):
    if rp.get("engine") == "C10-R":
        print(rp["source"])
        st = v2x.init_state(rp["source"])
        _p, uid_n, pops = v2x.step(st, v2x.resolve_event(st, ("start_main",)), [], 0, budget=200000)
        for r in range(ROUNDS):
            row = []
            for name in rp["period"]:
                try:
                    _p, uid_n, pops = v2x.step(st, {"type": name}, [], uid_n, budget=200000)
                except seams.StepBudgetExceeded:
                    pops = ">200000"
                row.append(pops)
                if pops == ">200000":
                    break
            print(f"round {r + 1}: internal events per event {row}; live instances",
                  sum(1 for fs in st.flow_states.values() if sm.is_listening_flow(fs)))
            if ">200000" in row:
                break
        print(rp["what"])
        return 0
    if rp.get("engine") == "C10-M":
        from vf.props import c10_more
        return c10_more.replay(rp)
    if rp.get("engine") == "C10-X":
        r = x_task((rp["watcher"], rp["watcher_start"], rp["position"], len(rp["history"])))
        print(rp["source"])
        for sig, what, _i in r["viol"]:
            print(sig, ":", what)
        print(rp["what"])
        return 0
    if rp.get("engine") == "C10-F":
        rt = _runtime(rp["source"])
        loop = asyncio.new_event_loop()
        hist = [{"type": t, "p": "x"} if t != "X" else {"type": "X"} for t in rp["history"]]
        try:
            # (a run that never terminates keeps creating flow instances: every further step gets slower)
            outs, _ = run_history(rt, hist, loop, 5000)
            print(rp["source"])
            for ev, o in zip(["<start>"] + rp["history"], outs):
                print(ev, "->", o)
        except seams.StepBudgetExceeded as e:
            print(rp["source"])
            print("history", rp["history"], ": step budget (5000 internal events within one run_to_completion) exceeded:", e)
        except Exception as e:
            print("raised", repr(e))
        print(rp["what"])
        return 0
    ex = Explorer(rp["source"], lambda s, n: [], depth=0, budget=5000)
    hist = [(tuple(h[0]), tuple(h[1])) for h in rp["history"]]
    print(rp["source"])
    try:
        node, outs = ex.replay(hist)
        for (a, v), o in zip(hist, outs):
            print(a, v, "->", [e["type"] for e in (o or [])])
    except seams.StepBudgetExceeded as e:
        print("history", hist, ": step budget (5000 internal events) exceeded:", e)
    print(rp["what"])
    return 0
