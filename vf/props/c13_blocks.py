"""C13 part L, additional seed families (all enumerated completely, nothing sampled).

gen_v1_blocks()   Colang 1.0 *block forms*: every place where the 1.0 parser hands an indented block to
                  yaml, or synthesises lines next to lines the author wrote (flow modifiers -> `meta`
                  entries, `bot x "text"` -> example line, `when`/`or` -> `any` + parts, markdown `if`s).
                  HEAD (10 `define <modifiers> flow` forms) x META (no / 1 / 2 / nested explicit meta block)
                  x UNITS, and BODY (15 elements with a parameter / example block) x 2 heads x UNITS.
                  UNITS = (blanks per level of the flow body, blanks per level inside a parameter block):
                  the two steps are independent because the parser computes the indentation of its own
                  lines from one of them (fixed offsets) while yaml sees the other.
                  Every program then gets every layout edit of part L, including indentation x2 / x3.
gen_v1_strings()  Colang 1.0 message blocks with a three-line "..." utterance at every position among
                  single-line ones (define bot / define user / examples under `bot x` in a flow), interior
                  line at column 0 / same / deeper, unit 2 / 4, followed by a flow.
gen_v2_strings()  Colang 2.x flows whose strings (doc-string block, one-line doc-string, multi-line
                  string value, "..." and '...' literals) contain text that looks like syntax.

gen_v2_payload_hosts()  see there.

COMMENT_PAYLOADS  texts of end-of-line comments (Colang 2.x).  The property quantifies over end-of-line
                  comments, not over the one comment ` # c`: what follows the `#` is arbitrary text.
                  The payloads are the lexical material of both languages (quotes, triple quotes, brackets,
                  keywords at the start of the comment, `#`, backslash, non-ASCII) and three spellings of the
                  separator.  None of them is a comment that carries meaning in 2.x (the only such comment is
                  a *full-line* `# meta: exclude from llm` in column 0, which an end-of-line comment never is).
"""
from __future__ import annotations

from vf.props.c13_seeds import RAW, render

# ------------------------------------------------------------------ Colang 1.0 block forms
HEADS = [
    "define flow blk",
    "define subflow blk",
    "define extension flow blk",
    "define test flow blk",
    "define parallel flow blk",
    "define parallel extension flow blk",
    "define non-interruptable subflow blk",
    "define response flow blk",
    "define interruption flow blk",
    "define sample flow blk",
]

# explicit meta blocks: lists of (depth inside the block, text)
METAS = [
    None,
    [(1, "priority: 2")],
    [(1, "priority: 2"), (1, 'owner: "me"')],
    [(1, "limits:"), (2, "turns: 3"), (2, "seconds: 5"), (1, "priority: 2")],
]

# body elements: lists of (kind, depth, text); kind "b" = flow-body level (unit u1 per level),
# kind "p" = line of a parameter / example block below the previous "b" line (u2 per level)
BODIES = [
    [("b", 0, "bot inform"), ("p", 1, 'quick_replies: "a", "b"'), ("p", 1, "$k = 3")],
    [("b", 0, "bot inform"), ("p", 1, '"Hello"'), ("p", 1, '"Hi"')],
    [("b", 0, 'bot inform "Hello"')],
    [("b", 0, 'bot inform "Hello"'), ("p", 1, "k: 3")],
    [("b", 0, "bot inform"), ("p", 1, "k: 3"), ("p", 1, '"Hello"'), ("p", 1, '"Hi"')],
    [("b", 0, "bot inform"), ("p", 1, "if $f"), ("p", 2, '"Hello"'), ("p", 1, "else"), ("p", 2, '"Hi"')],
    [("b", 0, "bot"), ("p", 1, 'text: "hi"'), ("p", 1, "k: 3")],
    [("b", 0, "user ask y"), ("p", 1, "k: 3"), ("p", 1, "nested:"), ("p", 2, "z: 1"), ("p", 2, "w: 2")],
    [("b", 0, "event Foo"), ("p", 1, "k: 3"), ("p", 1, "l:"), ("p", 2, "- 1"), ("p", 2, "- 2")],
    [("b", 0, "do other"), ("p", 1, "k: 3")],
    [("b", 0, "execute act"), ("p", 1, "k: 3"), ("p", 1, "m: 4")],
    [("b", 0, "meta"), ("p", 1, "k: 3")],
    [("b", 0, "any"), ("b", 1, "user ask y"), ("b", 1, "user ask z")],
    [("b", 0, "when user ask y or user ask z"), ("b", 1, "bot inform"), ("p", 1, "k: 3"),
     ("b", 0, "else when user ask w"), ("b", 1, "bot bye")],
    [("b", 0, "if $x"), ("b", 1, "bot inform"), ("p", 1, "k: 3"), ("b", 0, "else"), ("b", 1, 'bot inform "Hello"'),
     ("p", 1, "k: 4")],
]

# the pairs with gcd 1 up to 3 (every other pair up to (9, 9) with these ratios is reached by the x2 / x3
# scaling edits of part L: (2,4) = 2 x (1,2), (3,3) = 3 x (1,1), ...) and the conventional (2, 2)
UNITS = [(1, 1), (2, 2), (1, 2), (2, 1), (1, 3), (3, 1), (2, 3), (3, 2)]


def _flow(head, meta, body, u1, u2):
    lines = [head]
    if meta is not None:
        lines.append(" " * u1 + "meta")
        lines += [" " * (u1 + d * u2) + t for d, t in meta]
    lines.append(" " * u1 + "user ask x")
    cur = u1
    for kind, d, t in body:
        if kind == "b":
            cur = u1 * (1 + d)
            lines.append(" " * cur + t)
        else:
            lines.append(" " * (cur + d * u2) + t)
    lines.append(" " * u1 + "bot bye")
    return "\n".join(lines) + "\n"


def gen_v1_blocks():
    out = []
    for hi, head in enumerate(HEADS):
        for mi, meta in enumerate(METAS):
            for u1, u2 in UNITS:
                if meta is None and u2 != u1:
                    continue  # no block that uses the second step
                out.append((f"gen1b/h{hi}m{mi}u{u1}{u2}", _flow(head, meta, [("b", 0, "bot inform")], u1, u2)))
    for bi, body in enumerate(BODIES):
        uses_p = any(k == "p" for k, _d, _t in body)
        for hi, mi in ((0, 0), (1, 1)):
            for u1, u2 in UNITS:
                if not uses_p and METAS[mi] is None and u2 != u1:
                    continue
                out.append((f"gen1b/b{bi}h{hi}u{u1}{u2}", _flow(HEADS[hi], METAS[mi], body, u1, u2)))
    return out


# ------------------------------------------------------------------ Colang 1.0 multi-line utterances
def gen_v1_strings():
    out = []
    singles = ['"Hi there"', '"Good day"']
    for bk, block in enumerate(("define bot express greeting", "define user express greeting", None)):
        for pos in range(3):
            for ii, interior in enumerate(("col0", "same", "deeper")):
                for nlines in (3,):
                    for unit in (2, 4):
                        base = unit if block is not None else 2 * unit
                        ind = {"col0": 0, "same": base, "deeper": base + 3}[interior]
                        multi = [" " * base + '"Hello']
                        if nlines == 3:
                            multi.append(RAW + " " * ind + "dear")
                        multi.append(RAW + " " * ind + 'world"')
                        items = [" " * base + s for s in singles]
                        items[pos:pos] = multi
                        if block is not None:
                            lines = [block] + items + ["", "define flow", " " * unit + "user express greeting",
                                                       " " * unit + "bot express greeting"]
                        else:
                            lines = ["define flow", " " * unit + "user express greeting",
                                     " " * unit + "bot express greeting"] + items + [" " * unit + "bot bye"]
                        out.append((f"gen1s/k{bk}p{pos}i{ii}n{nlines}u{unit}", render(lines)))
    return out


# ------------------------------------------------------------------ Colang 2.x strings that look like syntax
LOOKS = ["define x", "flow y", "import z", "# not a comment", "@active", "else", "...", "match A()",
         "  indented", "text with 'single' quotes"]


def gen_v2_strings():
    out = []
    for li, s in enumerate(LOOKS):
        forms = {
            "docblock": ["flow s", '  """', RAW + "  " + s, '  """', "  match A()"],
            "docblock0": ["flow s", '  """', RAW + s, '  """', "  match A()"],
            "docline": ["flow s", '  """' + s + '"""', "  match A()"],
            "docfirst": ["flow s", '  """first', RAW + "  " + s, RAW + '  last"""', "  match A()"],
            "value3": ["flow s", '  $s = """first', RAW + s, RAW + '  last"""', "  match A()"],
            "dq": ["flow s", '  $s = "' + s.replace("'", "") + '"', "  match A()"],
            "sq": ["flow s", "  $s = '" + s.replace("'", "") + "'", "  send E(t='" + s.replace("'", "") + "') # eol"],
        }
        for fk, lines in forms.items():
            out.append((f"gen2s/{fk}{li}", render(lines)))
    return out


def gen_v2_payload_hosts():
    """Compact hosts for the comment payloads: every simple statement of the 2.x generator as a flow of its
    own, and every compound statement with one-line bodies (so that every kind of line end of the
    generated language meets every payload)."""
    from vf.props import c13_seeds as S

    out = []
    for i, st in enumerate(S.V2_SIMPLE):
        out.append((f"gen2p/s{i}", render(["flow f1 $a=1 $b=2", "  match Go()", "flow p"] + S.ind(st))))
    for i, comp in enumerate(S.V2_COMPOUND):
        out.append((f"gen2p/c{i}", render(["flow p"] + S.ind(comp(["send A()"], ["send B()"], "  ")))))
    out.append(("gen2p/hdr", render(["import core", "", "@meta(a=True)", '@loop("l")', "flow g $a $b=2 -> $r",
                                     "  return $a"])))
    return out


# ------------------------------------------------------------------ end-of-line comment payloads (2.x)
# slug -> text appended to the line
COMMENT_PAYLOADS = {
    "tight": "#c",
    "empty": " #",
    "tabsep": "\t# c",
    "triple-dq": ' # the """ block',
    "triple-sq": " # the ''' block",
    "triple-dq-pair": ' # """doc"""',
    "dq": ' # say "hi',
    "sq": " # it's",
    "hash": " # a # b ## c",
    "kw-define": " # define x",
    "kw-flow": " # flow x",
    "kw-import": " # import core",
    "kw-else": " # else",
    "ellipsis": " # ...",
    "dots-first": " #... more",
    "backslash": " # c \\",
    "open-paren": " # (",
    "open-bracket": " # [ {",
    "close": " # ) ] }",
    "dollar": " # $x = 1",
    "colon": " # c:",
    "decorator": " # @active",
    "meta": " # meta: exclude from llm",
    "unicode": " # é ☃",
}


def payload_kinds():
    return tuple(f"comment[{slug}]" for slug in COMMENT_PAYLOADS)


def payload_text(kind):
    return COMMENT_PAYLOADS[kind[len("comment["):-1]]


def takes_payloads(name):
    """Seeds that get every comment payload at every admissible position (the one-token comment ` # c`
    is applied to every 2.x seed): the string family and the payload hosts above."""
    return name.startswith("gen2s/") or name.startswith("gen2p/")
