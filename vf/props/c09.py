"""C09 - after each event the interpreter is quiescent and its dispatch index exact.

A state predicate evaluated on *every* state reached by every E1 exploration
(the program sets of C04-C08, C10, C11 and C09's own mixed-grammar programs and
library flows).  Only C09 violations are reported by this check.
"""
from __future__ import annotations

from vf.engines import v2x
from vf.engines.v2x import Violation, sm
from nemoguardrails.colang.v2_x.lang.colang_ast import MergeHeads, SpecOp, WaitForHeads
from nemoguardrails.colang.v2_x.runtime.flows import FlowHeadStatus, FlowStatus

PROP = "C09"

# Reference naming of the event a waiting statement listens for, written from the UMIM / Colang naming convention
# (action requests carry the verb in front: StartX, StopX, ChangeX; action reports behind: XStarted, XFinished,
# X<Param>Updated; flow events have fixed names) - deliberately independent of the interpreter's own helper.
_FLOW_EVENT = {"Start": "StartFlow", "Stop": "StopFlow", "Pause": "PauseFlow", "Resume": "ResumeFlow",
               "Started": "FlowStarted", "Finished": "FlowFinished", "Failed": "FlowFailed"}


def _action_event_name(action_name, member):
    if member in ("Start", "Stop", "Change"):
        return member + action_name
    return action_name + member


def ref_event_name(state, fs, el):
    from nemoguardrails.colang.v2_x.lang.colang_ast import SpecType
    from nemoguardrails.colang.v2_x.runtime.flows import Action, Event, FlowState

    spec = el.spec
    members = spec.members
    if spec.var_name is not None:
        obj = fs.context[spec.var_name]
        for m in (members or [])[:-1]:
            obj = obj[m.name] if isinstance(obj, dict) else getattr(obj, m.name)
        if isinstance(obj, Event):
            return obj.name
        last = members[-1]["name"]
        if isinstance(obj, Action):
            return _action_event_name(obj.name, last)
        if isinstance(obj, FlowState):
            return _FLOW_EVENT[last]
        raise ValueError(f"unsupported reference {type(obj).__name__}")
    if members is not None:
        if spec.spec_type == SpecType.FLOW:
            return _FLOW_EVENT[members[0]["name"]]
        if spec.spec_type == SpecType.ACTION:
            return _action_event_name(spec.name, members[0]["name"])
        raise ValueError(f"unsupported spec type {spec.spec_type}")
    return spec.name


def problems(state, allow_missing_parent=False):
    """Return a list of (signature, text) describing every violated predicate."""
    out = []
    if len(state.internal_events) != 0:
        out.append(("pending-internal-events", f"{len(state.internal_events)} internal events pending"))

    expected_index: dict[str, list] = {}
    expected_rev: dict[str, str] = {}
    stats = {"waiting_heads": 0, "forked": 0}
    for uid, fs in state.flow_states.items():
        cfg = state.flow_configs.get(fs.flow_id)
        if cfg is None:
            out.append(("dangling-flow-config", f"flow {fs.flow_id} has no config"))
            continue
        if uid != fs.uid:
            out.append(("flow-key-mismatch", f"flow_states key {uid} != uid {fs.uid}"))
        listening = sm.is_listening_flow(fs)
        done = fs.status in (FlowStatus.FINISHED, FlowStatus.STOPPED)
        if fs.status == FlowStatus.STOPPING:
            out.append(("flow-left-stopping", f"flow {fs.flow_id} left in STOPPING"))
        if done and fs.heads:
            out.append(("done-flow-holds-position", f"{fs.status.name} flow {fs.flow_id} still has {len(fs.heads)} head(s)"))
        n = len(cfg.elements)
        if listening:
            active = [h for h in fs.heads.values() if h.status != FlowHeadStatus.INACTIVE]
            if not active and fs.status != FlowStatus.WAITING:
                # the parked head of an immediately-finished activated flow is the only legal case
                if not (fs.activated > 0 and any(h.position >= n for h in fs.heads.values())):
                    out.append(("running-flow-without-waiting-head", f"flow {fs.flow_id} ({fs.status.name}) has no active head"))
            if len(fs.heads) > 1:
                stats["forked"] += 1
            for h in active:
                if h.status == FlowHeadStatus.MERGING:
                    out.append(("head-left-merging", f"flow {fs.flow_id} head at {h.position} still MERGING"))
                    continue
                if not (0 <= h.position < n):
                    out.append(("head-out-of-range", f"flow {fs.flow_id} active head at {h.position} of {n}"))
                    continue
                el = cfg.elements[h.position]
                if sm.is_match_op_element(el):
                    stats["waiting_heads"] += 1
                    try:
                        name = ref_event_name(state, fs, el)
                    except Exception as e:  # unresolved reference: the head can never be dispatched
                        out.append(("waiting-head-unresolvable", f"flow {fs.flow_id} match at {h.position}: {e!r}"))
                        continue
                    expected_index.setdefault(name, []).append((fs.uid, h.uid))
                    expected_rev[fs.uid + h.uid] = name
                elif isinstance(el, WaitForHeads):
                    pass
                else:
                    out.append(
                        ("head-on-executable-statement",
                         f"flow {fs.flow_id} ({fs.status.name}) head parked at {h.position} on {type(el).__name__}"
                         + (f" op={el.op}" if isinstance(el, SpecOp) else ""))
                    )
            if h_flow_refs := [c for c in fs.child_flow_uids if c not in state.flow_states]:
                out.append(("dangling-child-flow", f"flow {fs.flow_id} child uids missing: {len(h_flow_refs)}"))
            if fs.parent_uid and fs.parent_uid not in state.flow_states and not allow_missing_parent:
                out.append(("dangling-parent", f"flow {fs.flow_id} parent missing"))
            elif fs.parent_uid and fs.parent_uid in state.flow_states:
                par = state.flow_states[fs.parent_uid]
                # (a restarted activated flow hangs below its own earlier instance: same flow id, legal)
                # (an activated flow with several activators outlives the activator that happened to start it)
                if par.status in (FlowStatus.FINISHED, FlowStatus.STOPPED) and par.flow_id != fs.flow_id and fs.activated == 0:
                    # started by (or left behind under) an instance that is over: that instance acted after its end
                    out.append(("running-flow-below-finished-instance",
                                f"flow {fs.flow_id} ({fs.status.name}) is running below {par.flow_id} which is {par.status.name}"))
            for sname, (fl, ac) in fs.scopes.items():
                for a in ac:
                    if a not in state.actions:
                        out.append(("dangling-scope-action", f"flow {fs.flow_id} scope {sname[:12]} refers to missing action"))
        for a in fs.action_uids:
            if a not in state.actions:
                out.append(("dangling-action", f"flow {fs.flow_id} ({fs.status.name}) action uid missing from state.actions"))

    # flow_id_states index
    by_id: dict[str, list] = {}
    for fs in state.flow_states.values():
        by_id.setdefault(fs.flow_id, []).append(fs.uid)
    for fid, lst in state.flow_id_states.items():
        got = [f.uid for f in lst]
        if sorted(got) != sorted(by_id.get(fid, [])):
            out.append(("flow-id-index", f"flow_id_states[{fid}] has {len(got)} entries, scan finds {len(by_id.get(fid, []))}"))
        for f in lst:
            if state.flow_states.get(f.uid) is not f:
                out.append(("flow-id-index-identity", f"flow_id_states[{fid}] holds a stale object"))
    for fid in by_id:
        if fid not in state.flow_id_states:
            out.append(("flow-id-index", f"flow_id_states lacks {fid}"))

    # dispatch index == from-scratch scan
    idx = {k: list(v) for k, v in state.event_matching_heads.items() if v}
    for name in set(idx) | set(expected_index):
        a = sorted(idx.get(name, []))
        b = sorted(expected_index.get(name, []))
        if a != b:
            missing = [x for x in b if x not in a]
            stale = [x for x in a if x not in b]
            dup = len(a) != len(set(a))
            kind = "index-missing-head" if missing else ("index-duplicate" if dup and not stale else "index-stale-entry")
            out.append((kind, f"event_matching_heads[{name}]: missing={len(missing)} stale={len(stale)} dup={dup}"))
    # the lookup performed when an event arrives returns exactly the scanned heads, most important loop first
    _rel = {"FlowFinished": ("FlowStarted", "FlowFailed"), "FlowFailed": ("FlowStarted", "FlowFinished")}
    for name in sorted(set(idx) | set(expected_index)):
        want = list(expected_index.get(name, []))
        for other in _rel.get(name, ()):
            want += expected_index.get(other, [])
        try:
            got = sm._get_all_head_candidates(state, v2x.Event(name=name, arguments={}))
        except Exception as e:
            out.append(("lookup-raised", f"head lookup for {name} raised {e!r}"))
            continue
        if sorted(got) != sorted(want):
            out.append(("lookup-differs-from-scan", f"lookup for {name}: {len(got)} heads, scan finds {len(want)}"))
            continue
        keys = [(-state.flow_configs[state.flow_states[f].flow_id].loop_priority, state.flow_states[f].hierarchy_position) for f, _ in got if f in state.flow_states]
        if keys != sorted(keys):
            out.append(("lookup-order", f"lookup for {name} is not ordered by loop priority and hierarchy position"))
    if dict(state.event_matching_heads_reverse_map) != expected_rev:
        a, b = state.event_matching_heads_reverse_map, expected_rev
        if set(a) != set(b):
            out.append(("reverse-map", f"reverse map keys differ: extra={len(set(a) - set(b))} missing={len(set(b) - set(a))}"))
        else:
            out.append(("reverse-map", "reverse map names differ"))
    return out, stats


def side_check(ex, prev, aev, nxt):
    probs, st = problems(nxt.state, allow_missing_parent=bool(ex.age_of))
    ex.stats.bump("c09_states_checked")
    if st["waiting_heads"] >= 2:
        ex.stats.bump("c09_states_with_2plus_waiting_heads")
    if st["forked"]:
        ex.stats.bump("c09_states_with_forked_heads")
    if probs:
        sig, txt = probs[0]
        raise Violation(sig, txt + (f" (+{len(probs) - 1} more)" if len(probs) > 1 else ""),
                        {"all": [f"{s}: {t}" for s, t in probs[:8]]})


def _hook(state):
    probs, _ = problems(state)
    return [(sig, f"[generated grammar] {txt}") for sig, txt in probs[:1]]


HOSTS = ["c07", "c05", "c06", "c10", "c09lib"]


def run(rep, tier):
    import importlib
    from vf.e1run import run_e1

    v2x.SIDE_CHECKS["C09"] = side_check
    rep.assumptions += [
        "predicates evaluated after every run_to_completion of every E1 exploration: program sets of C07, C05, C06, C10 + shipped library flows (core, timing, guardrails) driven with utterance / bot-action / timer events (vf/props/c09lib.py)",
        "PYTHONHASHSEED=0; uids from a counter; random.choice enumerated",
    ]
    hosts = []
    for h in HOSTS:
        mod = importlib.import_module(f"vf.props.{h}")
        before = dict(rep.cov)
        if h == "c06" and tier == "quick":
            # quick: the hierarchy programs without their feed-back repetitions (the thorough tier hosts them all)
            class _Host:
                explore = staticmethod(mod.explore)
                tasks = staticmethod(lambda t, _m=mod: [x for x in _m.tasks(t) if not (len(x) > 8 and x[8])])
            mod = _Host
        errs = run_e1(rep, mod, tier, side="C09")
        hosts.append(h)
        if h != "c10":
            # an exception that escapes run_to_completion for a program without a faulty statement: the event was not
            # processed at all (e.g. KeyError on a stale entry of the dispatch index).  C10 judges its own (faulty) programs.
            seen_e = set()
            for src, hist, aev, err in errs or []:
                sig = "event-processing-raised:" + str(err).split("(", 1)[0]
                if sig in seen_e:
                    continue
                seen_e.add(sig)
                rep.violation(sig, f"[host {h}] event {aev} raised {str(err)[:200]}", {"engine": "E1", "prop": "C09", "source": src, "history": hist, "event": list(aev) if isinstance(aev, (list, tuple)) else aev})
    # states reached after a save/restore or an ageing cut (C11's lock-step explorer as host)
    from vf import par
    from vf.props import c11
    c11.C09_ON_CUT_STATES = True
    c11.CUT_KINDS = ("SAVE_RESTORE", "AGE")   # C11 itself explores two more cut kinds; as a host two are enough
    n_cut = 0
    for r in par.pmap(c11.explore, c11.tasks(tier)):
        n_cut += r["stats"].get("c09_states_checked", 0)
        for sig, what, info in r.get("c09", []):
            rep.violation(sig, what, info)
    rep.add("c09_states_checked", n_cut)
    rep.set("c09_states_checked_after_save_restore_or_ageing", n_cut)
    hosts.append("c11 (cut states)")
    # the generated control-flow grammar of C12 (nested if / while / when / groups / break / continue / return / abort),
    # every state reached by its interpreter runs
    from vf.props import c12, c12_dyn
    c12_dyn.STATE_HOOK[0] = _hook
    try:
        tk, _ = c12.tasks(tier)
        tk = [t for t in tk if t[0] in ("v2cur", "v2ctl", "v2rich", "v2pair") or (t[0] == "whenfam" and t[1] == "2.x")]
        if tier == "quick":  # quick: control grammar up to 4 nodes, rich statements, curated and when families
            tk = [t for t in tk if not (t[0] == "v2ctl" and t[1] > 4) and t[0] != "v2pair"]
        n_g = n_p = 0
        for res in par.pmap(c12.work, tk, chunksize=1):
            n_g += res["counts"].get("hook_states", 0)
            n_p += res["counts"].get("v2_programs_run_on_interpreter", 0)
            for v in res["violations"]:
                if v["signature"].startswith("HOOK/"):
                    rp = dict(v["replay"], engine="E1-c12-grammar")
                    rep.violation(v["signature"][5:], v["what"], rp)
    finally:
        c12_dyn.STATE_HOOK[0] = None
    rep.add("c09_states_checked", n_g)
    rep.set("c09_states_checked_in_generated_grammar_programs", n_g)
    rep.set("generated_grammar_programs_run", n_p)
    hosts.append("c12 generated grammar (interpreter runs)")
    # family D: flows added / replaced / removed while instances wait, two conversations on one runtime - every history of
    # real RuntimeV2_x.process_events calls up to the bound, predicates on the State of every conversation after every call
    from vf.props import c09dyn
    dyn_tasks = c09dyn.tasks(tier)
    if rep.seed:
        import random
        random.Random(rep.seed).shuffle(dyn_tasks)
    best = {}
    sits = {}
    n_done = 0
    for res in par.pmap(c09dyn.explore, dyn_tasks, chunksize=1):
        n_done += 1
        rep.merge_counts(res["counts"])
        for k, v in res["situations"].items():
            sits[k] = sits.get(k, 0) + v
        for v in res["violations"]:
            rank = (len(v["replay"]["history"]), v["replay"]["program"], repr(v["replay"]["history"]))
            if v["signature"] not in best or rank < best[v["signature"]][0]:
                best[v["signature"]] = (rank, v)
        if n_done <= 2:
            rep.sample(res["sample"])
    for sig in sorted(best):
        v = best[sig][1]
        rep.violation(v["signature"], v["what"], v["replay"])
    rep.set("dyn_history_partitions_planned", len(dyn_tasks))
    rep.set("dyn_history_partitions_done", n_done)
    rep.set("dyn_calls_by_situation", dict(sorted(sits.items())))
    rep.set("dyn_bound", {"programs": list(c09dyn.PROGRAMS), "alphabet": c09dyn.EVENTS + ["open second conversation"],
                          "one_conversation_history_length": min((t[3] for t in dyn_tasks if t[2] == 1), default=0),
                          "two_conversations_history_length": min((t[3] for t in dyn_tasks if t[2] == 2), default=0)})
    if n_done != len(dyn_tasks):
        rep.set("exhaustive", False)
    hosts.append("c09dyn (AddFlowsAction / RemoveFlowsAction / StartFlow through RuntimeV2_x.process_events, one and two conversations)")
    rep.assumptions.append(
        "family D (vf/props/c09dyn.py): worlds are copied with one deepcopy of (runtime table, states) sharing only the compiled statements; "
        "a sample of the nodes is rebuilt from scratch and compared; a world in which a predicate failed is not expanded further; "
        "states / transitions of family D are counted per history partition (first symbol)")
    rep.set("hosts", hosts)
    rep.set("rule", "every state reached by the host explorations; non-trivial = state with >=2 waiting heads")
    rep.set("distinct_nontrivial", rep.cov.get("c09_states_with_2plus_waiting_heads", 0))
    rep.set("evaluations", rep.cov.get("c09_states_checked", 0))


def replay(rp):
    if rp.get("engine") == "E1-c09dyn":
        from vf.props import c09dyn
        return c09dyn.replay(rp)
    if rp.get("kind") == "v2dyn" or rp.get("engine") == "E1-c12-grammar":
        from vf.props import c12, c12_dyn
        print("program:\n" + rp["source"])
        st = c12.compile_v2(rp["source"])
        c12_dyn.install()
        hist = [(tuple(a), tuple(v)) for a, v in rp.get("history") or []]
        for aev, _ in c12_dyn.run_history(st, v2x.UIDS.n, hist):
            print("event", aev)
        probs, _ = problems(st)
        print("expected: no problems; observed:", probs or "(none)")
        return 0
    from vf.props.c07 import replay as r
    v2x.SIDE_CHECKS["C09"] = side_check
    return r(rp)
