"""C02 (and the output side of C01's sibling clause), event level: the SHIPPED Colang 2.x guardrails library driven through
the event API.

`generate` makes every utterance an instant action; a client of the event API does not: the bot is still talking while
the user barges in, rail actions are in flight while other events arrive, flows waiting for an utterance are aborted.
The explorer (E1) runs the real interpreter on core.co + guardrails.co + a small bot, with every order of user
utterances and action results up to the depth bound.

Oracle: every `StartUtteranceBotAction(script=X)` that is emitted, X not being a refusal text of the rails, was approved:
an output-rail action was started with text X and finished with True, once per utterance (approvals are consumed)."""
from __future__ import annotations

from vf.engines import v2x
from vf.engines.v2x import Explorer, Violation
from vf.props.c09lib import lib

RAILS = """
flow input rails $input_text
  $ok = await CheckInputAction(text=$input_text)
  if not $ok
    bot say "REFUSED-IN"
    abort

flow output rails $output_text
  $ok = await CheckOutputAction(text=$output_text)
  if not $ok
    bot say "REFUSED-OUT"
    abort
"""

BOTS = {
    # the answer can be interrupted by the user (barge-in); afterwards the bot answers again
    "barge-in": """
flow main
  activate handling

flow handling
  user said "hi"
  when bot say "ANSWER-1"
    send Said1()
  or when user said "stop"
    send Interrupted()
  user said "more"
  bot say "ANSWER-2"
""",
    # two answers in a row, the conversation goes on after a rejected one
    "two-answers": """
flow main
  activate handling

flow handling
  user said "hi"
  bot say "ANSWER-1"
  bot say "ANSWER-2"
""",
    # the answer is started (not awaited) and the flow that holds it may end first
    "started-answer": """
flow main
  activate handling

flow handling
  user said "hi"
  start bot say "ANSWER-1" as $s
  user said "stop"
  send StopFlow(flow_instance_uid=$s.uid)
  user said "more"
  bot say "ANSWER-2"
""",
}
REFUSALS = ("REFUSED-IN", "REFUSED-OUT")


def explore(task):
    name, depth = task
    src = BOTS[name] + RAILS

    def alphabet(state, node):
        if node.depth == 0:
            return [("start_main",)]
        pend = v2x.pending_actions(state)
        evs = []
        # results the runtime computes itself come first and without alternatives
        for k, a in enumerate(pend):
            if a.name == "CheckFlowDefinedAction":
                return [("act", k, "Finished", {"return_value": True})]
        for u in ("hi", "stop", "more"):
            evs.append(("ext", "UtteranceUserActionFinished", {"final_transcript": u, "is_success": True}))
        for k, a in enumerate(pend[:3]):
            if a.name in ("CheckInputAction", "CheckOutputAction"):
                evs.append(("act", k, "Finished", {"return_value": True}))
                evs.append(("act", k, "Finished", {"return_value": False}))
            elif a.name == "UtteranceBotAction":
                if a.status.name == "STARTING":
                    evs.append(("act", k, "Started", {}))
                evs.append(("act", k, "Finished", {"final_script": a.start_event_arguments.get("script", ""), "is_success": True}))
        return evs

    def monitor(ex, prev, aev, conc, taken, nxt, pops):
        approved = dict(prev.aux.get("approved", ()))     # text -> approvals not yet used
        checks = dict(prev.aux.get("checks", ()))         # action uid -> text under check
        if isinstance(conc, dict) and conc.get("type") == "CheckOutputActionFinished":
            t = checks.pop(conc.get("action_uid"), None)
            if t is not None and conc.get("return_value") is True:
                approved[t] = approved.get(t, 0) + 1
                ex.stats.bump("output_rail_approvals")
            elif t is not None:
                ex.stats.bump("output_rail_rejections")
                nxt.aux["disturbed"] = True
        aborted = prev.aux.get("aborted_in_flight", False)
        for e in nxt.state.outgoing_events:
            if e["type"] == "StopCheckOutputAction" and e.get("action_uid") in checks:
                # the flow that was running the output rails was aborted while the rail action was in flight
                aborted = True
                nxt.aux["disturbed"] = True
                checks.pop(e["action_uid"], None)
                ex.stats.bump("output_rails_aborted_in_flight")
            if e["type"] == "StartCheckOutputAction":
                checks[e["action_uid"]] = e.get("text")
            elif e["type"] == "StartUtteranceBotAction":
                x = e.get("script")
                if x in REFUSALS:
                    continue
                ex.stats.bump("checked_utterances")
                if approved.get(x, 0) < 1:
                    # a rails run that was interrupted (its action stopped / still unanswered) or that rejected its message came before?
                    disturbed = bool(nxt.aux.get("disturbed") or prev.aux.get("disturbed") or checks)
                    raise Violation("unchecked-message-uttered:v2:event-api:" + name + (":after-an-interrupted-or-rejecting-rails-run" if disturbed else ":every-earlier-rails-run-had-approved-its-message"),
                                    f"StartUtteranceBotAction(script={x!r}) was emitted without an approving run of the output rails for it "
                                    f"(approvals open: {approved})", {"script": x})
                approved[x] -= 1
        nxt.aux["approved"] = tuple(sorted((k, v) for k, v in approved.items() if v))
        nxt.aux["checks"] = tuple(sorted(checks.items()))
        nxt.aux["aborted_in_flight"] = aborted

    ex = Explorer(src, alphabet, monitors=[monitor], depth=depth, extra_sources=[lib("core"), lib("guardrails")], max_states=60000)
    ex.run()
    r = v2x.result_of(ex, {"bot": name, "depth": depth})
    return r


def tasks(tier):
    d = 12 if tier == "quick" else 15
    return [(n, d) for n in BOTS]
