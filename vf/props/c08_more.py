"""C08 - further families (same property, same engine E1, single traces on the real interpreter).

(1) override family: a flow `callee` is defined twice, once plainly and once with `@override`; the two definitions have
    different signatures (other parameters, other order, other defaults).  The flow that runs is the overriding one, so
    its OWN declaration decides the binding of positional / named arguments and defaults.
    Enumerated: override signatures x overridden signatures x where the two definitions come from (order in the file,
    second source file) x call shapes of the override signature x call forms.  Oracle: the Python-like binder of c08.py
    applied to the signature of the flow whose body runs.

(2) scope family: worker instances of one flow, a helper they call, the caller `main` and an observer.  A variable is
    global for an instance from the moment THAT instance executes `global $x`; until then (and for ever in an instance
    that never reaches the statement) `$x` is its own local.  Enumerated: where the worker has its `global $x` statements
    (three slots: before the first use, after a local use, after a wait; plain or inside `if $shared`) x which workers
    take the conditional declaration x what the caller does with `$x` x what the helper does x event orders.
    Oracle: a reference interpreter of exactly these scoping rules (locals per instance, one global store).
"""
from __future__ import annotations

import itertools

from vf.engines import v2x
from vf.props.c08 import lit, same

# ----------------------------------------------------------------------------------------------- (1) override family
NAMES = ("a", "b")
ARG = {"a": 1, "b": "s"}                     # the value a call passes for a parameter
DEF_OVERRIDE = {"a": "da", "b": 7}           # defaults declared by the overriding flow
DEF_BASE = {"a": "xa", "b": [9]}             # defaults declared by the overridden flow (never the right answer)
PLACEMENTS = ("base-first", "override-first", "override-in-second-source", "base-in-second-source")
OVR_FORMS = ("assign_await", "start_match", "activate")


def signatures(masks="all"):
    """ordered parameter lists over NAMES (length 1..2), each with a default mask: tuples of (name, has_default)"""
    out = []
    for k in (1, 2):
        for order in itertools.permutations(NAMES, k):
            for mask in itertools.product([False, True], repeat=k):
                if masks == "uniform" and len(set(mask)) > 1:
                    continue
                out.append(tuple(zip(order, mask)))
    return out


def sig_text(sig, defaults):
    return " ".join(f"${n}={lit(defaults[n])}" if d else f"${n}" for n, d in sig)


def strict_shapes(sig):
    """(positional names, named names) such that every omitted parameter declares a default"""
    out, k = [], len(sig)
    names = [n for n, _ in sig]
    for given in itertools.product([False, True], repeat=k):
        if any((not g) and (not sig[i][1]) for i, g in enumerate(given)):
            continue
        max_pos = 0
        while max_pos < k and given[max_pos]:
            max_pos += 1
        for m in range(max_pos + 1):
            named = [names[i] for i in range(m, k) if given[i]]
            for o in ([named] + ([list(reversed(named))] if len(named) >= 2 else [])):
                s = (tuple(names[:m]), tuple(o))
                if s not in out:
                    out.append(s)
    return out


def ovr_call_text(shape):
    return " ".join([lit(ARG[n]) for n in shape[0]] + [f"${n}={lit(ARG[n])}" for n in shape[1]])


def ovr_sources(osig, bsig, placement, shape, form):
    wait = "  match Never()\n" if form == "activate" else "  match Go()\n"
    base = (f"flow callee {sig_text(bsig, DEF_BASE)}\n"
            f'  send Echo(who="overridden", ' + ", ".join(f"{n}=${n}" for n, _ in bsig) + ")\n" + wait + '  return "overridden"\n')
    ovr = (f"@override\nflow callee {sig_text(osig, DEF_OVERRIDE)}\n"
           f'  send Echo(who="override", ' + ", ".join(f"{n}=${n}" for n, _ in osig) + ")\n" + wait + f"  return ${osig[-1][0]}\n")
    args = ovr_call_text(shape)
    call = {"assign_await": f"  $x = await callee {args}\n",
            "start_match": f"  start callee {args} as $r\n  match $r.Finished()\n",
            "activate": f"  activate callee {args}\n"}[form]
    main = 'flow main\n  $x = "unset"\n' + call + "  send After(x=$x)\n  match Never()\n"
    if placement == "base-first":
        return base + "\n" + ovr + "\n" + main, ()
    if placement == "override-first":
        return ovr + "\n" + base + "\n" + main, ()
    if placement == "override-in-second-source":
        return base + "\n" + main, (ovr,)
    return ovr + "\n" + main, (base,)


def ovr_tasks(tier):
    out = []
    bsigs = signatures("all" if tier == "thorough" else "uniform")
    for osig in signatures():
        for bsig in bsigs:
            for shape in strict_shapes(osig):
                if tier == "thorough":
                    combos = list(itertools.product(PLACEMENTS, OVR_FORMS))
                else:
                    # every placement and every form occur for every (override, overridden, call shape)
                    combos = [("base-first", "assign_await"), ("override-first", "assign_await"),
                              ("override-in-second-source", "start_match"), ("base-in-second-source", "activate")]
                for placement, form in combos:
                    out.append((osig, bsig, placement, shape, form))
    return out


def check_override(task):
    osig, bsig, placement, shape, form = task
    src, extra = ovr_sources(osig, bsig, placement, shape, form)
    given = set(shape[0]) | set(shape[1])
    res = {"programs": 1, "steps": 0, "viol": [], "defaults_used": sum(1 for n, _ in osig if n not in given),
           "named": len(shape[1]), "positional": len(shape[0]),
           "differs": int(sig_text(osig, DEF_OVERRIDE) != sig_text(bsig, DEF_BASE))}
    info = {"engine": "C08-ovr", "source": src, "extra_sources": list(extra),
            "task": [[list(p) for p in osig], [list(p) for p in bsig], placement, [list(shape[0]), list(shape[1])], form]}
    where = (f"`flow callee {sig_text(bsig, DEF_BASE)}` overridden by `@override flow callee {sig_text(osig, DEF_OVERRIDE)}` ({placement}), "
             f"called `{form.replace('_', ' ')}: callee {ovr_call_text(shape)}`")

    def bad(kind, what):
        res["viol"].append((f"binding:override:{placement}:{form}:{kind}", f"{where}: {what}", info))

    try:
        st = v2x.init_state(src, extra_sources=extra)
    except Exception as e:
        bad("program-rejected", f"{e!r}"[:200])
        return res
    try:
        v2x.step(st, v2x.resolve_event(st, ("start_main",)), [], v2x.UIDS.n)
        res["steps"] += 1
    except Exception as e:
        bad("call-raised", f"the interpreter raised {type(e).__name__}: {str(e)[:120]}")
        return res
    echoes = [e for e in st.outgoing_events if e["type"] == "Echo"]
    if len(echoes) != 1:
        bad("callee-not-started", f"{len(echoes)} Echo events after the call; outgoing={[e['type'] for e in st.outgoing_events]}")
        return res
    echo = echoes[0]
    if echo.get("who") != "override":
        bad("body-of-the-overridden-flow-ran", f"the body that ran says who={echo.get('who')!r}")
        return res
    for n, has_default in osig:
        want = ARG[n] if n in given else DEF_OVERRIDE[n]
        if n not in echo or not same(echo[n], want):
            kind = "positional" if n in shape[0] else "named" if n in shape[1] else "default"
            bad(kind, f"parameter ${n} = {echo.get(n, '<missing>')!r} in the callee, expected {want!r}")
    after = [e for e in st.outgoing_events if e["type"] == "After"]
    if form == "activate":
        if not after:
            bad("caller-not-resumed", "no After event after the activation")
        return res
    if after:
        bad("caller-continued-before-callee-finished", "After emitted before the callee finished")
    try:
        v2x.step(st, {"type": "Go"}, [], v2x.UIDS.n)
        res["steps"] += 1
    except Exception as e:
        bad("call-raised", f"the interpreter raised {type(e).__name__} on Go: {str(e)[:120]}")
        return res
    after = [e for e in st.outgoing_events if e["type"] == "After"]
    if not after:
        bad("caller-not-resumed", f"no After event once the callee finished; outgoing={[e['type'] for e in st.outgoing_events]}")
        return res
    last = osig[-1][0]
    want = (ARG[last] if last in given else DEF_OVERRIDE[last]) if form == "assign_await" else "unset"
    if not same(after[0].get("x", "<missing>"), want):
        bad("return-value", f"caller $x = {after[0].get('x', '<missing>')!r} afterwards, expected {want!r}")
    return res


# ----------------------------------------------------------------------------------------------- (2) scope family
SLOT_KINDS = ("-", "G", "Gc")            # nothing / `global $x` / `if $shared` + `global $x`
MAIN_VARIANTS = ("global-first", "local", "global-after-local-use")
HELPERS = ("none", "assigns-local", "assigns-global")
WORKERS = ("a", "b")


def _orders():
    evs = {"a": [("Go", "a"), ("Go2", "a")], "b": [("Go", "b"), ("Go2", "b")]}
    out = []
    for pattern in sorted(set(itertools.permutations("aabb"))):
        idx = {"a": 0, "b": 0}
        seq = []
        for w in pattern:
            seq.append(evs[w][idx[w]])
            idx[w] += 1
        out.append(tuple(seq))
    return out


ORDERS = _orders()                       # the 6 interleavings of (Go a, Go2 a) with (Go b, Go2 b)


def worker_ops(slots, helper):
    ops = []

    def slot(kind):
        if kind == "G":
            ops.append(("global",))
        elif kind == "Gc":
            ops.append(("cglobal",))

    slot(slots[0])
    ops += [("assign", 1), ("echo", "Echo", 1)]
    slot(slots[1])
    ops += [("wait", "Go"), ("echo", "Echo", 2)]
    if helper != "none":
        ops += [("call", helper), ("echo", "Echo", 3)]
    slot(slots[2])
    ops += [("echo", "Echo", 4), ("assign", 2), ("echo", "Echo", 5), ("wait", "Go2"), ("echo", "Echo", 6)]
    return ops


def helper_ops(helper):
    return ([("global",)] if helper == "assigns-global" else []) + [("assign", 9), ("echo", "HelperEcho", 0)]


def main_ops(mainv, shared):
    ops = [("global",)] if mainv == "global-first" else []
    ops += [("assign", 0), ("start-observer",), ("start", "a", shared[0]), ("start", "b", shared[1]), ("echo", "MainEcho", 0)]
    if mainv == "global-after-local-use":
        ops.append(("global",))
    ops += [("loop",), ("wait", "Tick"), ("echo", "MainEcho", 1), ("again",)]
    return ops


def _ops_text(ops, who_expr, indent="  "):
    """Colang text of an op list; who_expr: the expression naming the instance (`$mode`, `$who`, or a literal for main)"""
    lines = []
    ind = indent
    for op in ops:
        if op[0] == "global":
            lines.append(f"{ind}global $x")
        elif op[0] == "cglobal":
            lines.append(f"{ind}if $shared")
            lines.append(f"{ind}  global $x")
        elif op[0] == "assign":
            lines.append(f'{ind}$x = "main:{op[1]}"' if who_expr is None else f'{ind}$x = "{{{who_expr}}}:{op[1]}"')
        elif op[0] == "echo":
            who = '"main"' if who_expr is None else who_expr
            lines.append(f"{ind}send {op[1]}(who={who}, at={op[2]}, x=$x)")
        elif op[0] == "wait":
            lines.append(f"{ind}match {op[1]}()" if who_expr is None else f"{ind}match {op[1]}(who={who_expr})")
        elif op[0] == "call":
            lines.append(f"{ind}await helper {who_expr}")
        elif op[0] == "start-observer":
            lines.append(f"{ind}start observer")
        elif op[0] == "start":
            lines.append(f'{ind}start worker "{op[1]}" {op[2]}')
        elif op[0] == "loop":
            lines.append(f"{ind}while True")
            ind = indent + "  "
        elif op[0] == "again":
            ind = indent
    return "\n".join(lines) + "\n"


def scope_program(slots, shared, mainv, helper):
    src = '@loop("obs")\nflow observer\n  global $x\n  while True\n    match Tick()\n    send ObsEcho(who="obs", at=0, x=$x)\n\n'
    if helper != "none":
        src += "flow helper $who\n" + _ops_text(helper_ops(helper), "$who") + "\n"
    src += "flow worker $mode $shared\n" + _ops_text(worker_ops(slots, helper), "$mode") + "\n"
    src += "flow main\n" + _ops_text(main_ops(mainv, shared), None)
    return src


class _Inst:
    def __init__(self, who, ops, shared=False):
        self.who, self.ops, self.pc, self.shared = who, ops, 0, shared
        self.local, self.declared, self.loop_pc = None, False, None


def scope_model(slots, shared, mainv, helper, order):
    """reference interpreter: per step the multiset of (event type, who, at, x) and, for the evidence, whether a declared
    and an undeclared instance both read $x"""
    G = {"declared": False, "x": None}
    insts = []
    stats = {"declared_readers": 0, "local_readers": 0}

    def read(i):
        stats["declared_readers" if i.declared else "local_readers"] += 1
        return G["x"] if i.declared else i.local

    def write(i, v):
        if i.declared:
            G["x"] = v
        else:
            i.local = v

    def run(i, out):
        while i.pc < len(i.ops):
            op = i.ops[i.pc]
            if op[0] == "wait":
                return
            i.pc += 1
            if op[0] == "global" or (op[0] == "cglobal" and i.shared):
                i.declared = True
            elif op[0] == "assign":
                write(i, f"{i.who}:{op[1]}")
            elif op[0] == "echo":
                out.append((op[1], i.who, op[2], read(i)))
            elif op[0] == "call":
                h = _Inst(i.who, helper_ops(op[1]))
                run(h, out)
            elif op[0] == "start-observer":
                o = _Inst("obs", [("global",), ("loop",), ("wait", "Tick"), ("echo", "ObsEcho", 0), ("again",)])
                insts.append(o)
                run(o, out)
            elif op[0] == "start":
                w = _Inst(op[1], worker_ops(slots, helper), shared=op[2])
                insts.append(w)
                run(w, out)
            elif op[0] == "loop":
                i.loop_pc = i.pc
            elif op[0] == "again":
                i.pc = i.loop_pc

    def deliver(name, who, out):
        for i in list(insts):
            if i.pc < len(i.ops) and i.ops[i.pc] == ("wait", name) and (who is None or i.who == who):
                i.pc += 1
                run(i, out)

    steps = []
    out = []
    m = _Inst("main", main_ops(mainv, shared))
    insts.append(m)
    run(m, out)
    steps.append((("start_main",), out))
    for ev in (("Tick", None),) + tuple(x for e in order for x in (e, ("Tick", None))):
        out = []
        deliver(ev[0], ev[1], out)
        steps.append((ev, out))
    return steps, stats


def scope_tasks(tier):
    out = []
    for slots in itertools.product(SLOT_KINDS, repeat=3):
        if tier != "thorough" and sum(1 for s in slots if s != "-") > 1:
            continue
        shareds = list(itertools.product([False, True], repeat=2)) if "Gc" in slots else [(False, False)]
        for shared in shareds:
            for mainv in MAIN_VARIANTS:
                for helper in HELPERS:
                    for order in (ORDERS if tier == "thorough" else (ORDERS[1], ORDERS[4])):
                        out.append((slots, shared, mainv, helper, order))
    return out


def check_scope(task):
    slots, shared, mainv, helper, order = task
    src = scope_program(slots, shared, mainv, helper)
    want_steps, stats = scope_model(slots, shared, mainv, helper, order)
    res = {"programs": 1, "steps": 0, "viol": [], "mixed": int(stats["declared_readers"] > 1 and stats["local_readers"] > 0)}
    info = {"engine": "C08-scope", "source": src, "task": [list(slots), list(shared), mainv, helper, [list(e) for e in order]]}
    sig = f"locals:global-declaration:worker={'/'.join(slots)}:shared={'/'.join(str(s)[0] for s in shared)}:main={mainv}:helper={helper}"
    try:
        st = v2x.init_state(src)
    except Exception as e:
        res["viol"].append((sig + ":program-rejected", f"{e!r}"[:200], info))
        return res
    hist = []
    for ev, want in want_steps:
        concrete = v2x.resolve_event(st, ("start_main",)) if ev == ("start_main",) else ({"type": ev[0]} if ev[1] is None else {"type": ev[0], "who": ev[1]})
        hist.append(ev[0] if len(ev) == 1 or ev[1] is None else f"{ev[0]}({ev[1]})")
        try:
            v2x.step(st, concrete, [], v2x.UIDS.n)
            res["steps"] += 1
        except Exception as e:
            res["viol"].append((sig + ":raised", f"after {hist}: the interpreter raised {type(e).__name__}: {str(e)[:120]}", info))
            return res
        got = [(e["type"], e.get("who"), e.get("at"), e.get("x")) for e in st.outgoing_events if e["type"] in ("Echo", "HelperEcho", "MainEcho", "ObsEcho")]
        if sorted(got, key=repr) != sorted(want, key=repr):
            diff_got = [g for g in got if g not in want]
            diff_want = [w for w in want if w not in got]
            res["viol"].append((sig, f"worker declares `global $x` at slots {slots} (G = plain, Gc = only when $shared; workers a/b shared={shared}), main: {mainv}, helper: {helper}; "
                                     f"after {hist} the instances echoed (type, who, at, $x) {diff_got}, expected {diff_want} "
                                     f"(a variable is global for an instance only once that instance has executed `global $x`)", info))
            return res
    return res


# ----------------------------------------------------------------------------------------------- (3) calls inside groups
# "When a flow is started or awaited ..." also holds for a flow that is a member of an and/or group.  (What `$x = await a or b`
# assigns is not covered: the statement speaks of `$x = await flow`.)
GROUP_FORMS = ("await_or_first", "await_or_second", "await_and", "start_and")
GROUP_VALUES = ([1, "a"], True)


def group_tasks(tier):
    from vf.props import c08

    out = []
    for k in (1, 2):
        for mask in itertools.product([False, True], repeat=k):
            for shape in c08.call_shapes(k, mask):
                vals = [GROUP_VALUES[i] if (i in shape[0] or i in shape[1]) else None for i in range(k)]
                for form in GROUP_FORMS:
                    out.append((k, mask, shape, vals, form))
    return out


def group_program(k, mask, shape, vals, form):
    from vf.props import c08

    echo = ", ".join(f"p{i}=$p{i}" for i in range(k))
    args = c08.call_text(shape, vals)
    me = f"callee {args}".rstrip()
    call = {"await_or_first": f"  await {me} or idle 0\n", "await_or_second": f"  await idle 0 or {me}\n",
            "await_and": f"  await {me} and other 7\n", "start_and": f"  start {me} and other 7\n"}[form]
    return (f"flow callee {c08.signature_text(k, mask)}\n  send Echo({echo})\n  match Go()\n\n"
            "flow other $q\n  send Echo2(q=$q)\n  match Go()\n\n"
            '@loop("idle")\nflow idle $q\n  send Echo2(q=$q)\n  match Never()\n\n'
            "flow main\n" + call + "  send After()\n  match Never()\n")


def check_group(task):
    from vf.props import c08

    k, mask, shape, vals, form = task
    src = group_program(k, mask, shape, vals, form)
    res = {"programs": 1, "steps": 0, "viol": [], "defaults_used": sum(1 for i in range(k) if i not in shape[0] and i not in shape[1]),
           "named": len(shape[1]), "positional": len(shape[0])}
    info = {"engine": "C08-group", "source": src, "task": [k, list(mask), [list(shape[0]), list(shape[1])], vals, form]}
    where = f"callee {c08.signature_text(k, mask)} called `{c08.call_text(shape, vals)}` as a member of a group ({form})"

    def bad(kind, what):
        res["viol"].append((f"binding:group:{form}:{kind}", f"{where}: {what}", info))

    try:
        st = v2x.init_state(src)
        v2x.step(st, v2x.resolve_event(st, ("start_main",)), [], v2x.UIDS.n)
        res["steps"] += 1
    except Exception as e:
        bad("call-raised", f"{type(e).__name__}: {str(e)[:160]}")
        return res
    echoes = [e for e in st.outgoing_events if e["type"] == "Echo"]
    others = [e.get("q") for e in st.outgoing_events if e["type"] == "Echo2"]
    if len(echoes) != 1:
        bad("callee-not-started", f"{len(echoes)} Echo events; outgoing={[e['type'] for e in st.outgoing_events]}")
        return res
    for name, val in c08.expected_binding(k, mask, shape, vals).items():
        if name not in echoes[0] or not same(echoes[0][name], val):
            i = int(name[1:])
            bad("positional" if i in shape[0] else "named" if i in shape[1] else "default", f"parameter {name} = {echoes[0].get(name, '<missing>')!r}, expected {val!r}")
    want_q = [0] if form.startswith("await_or") else [7]
    if not (len(others) == 1 and same(others[0], want_q[0])):
        bad("other-member", f"the other member of the group echoed its parameter as {others!r}, expected {want_q!r}")
    after = any(e["type"] == "After" for e in st.outgoing_events)
    if form == "start_and":
        if not after:
            bad("caller-not-resumed", "no After event after `start`")
        return res
    if after:
        bad("caller-continued-before-callee-finished", "After emitted before the callee finished")
    try:
        v2x.step(st, {"type": "Go"}, [], v2x.UIDS.n)
        res["steps"] += 1
    except Exception as e:
        bad("call-raised", f"on Go: {type(e).__name__}: {str(e)[:160]}")
        return res
    if not any(e["type"] == "After" for e in st.outgoing_events):
        bad("caller-not-resumed", f"no After event once the group was complete; outgoing={[e['type'] for e in st.outgoing_events]}")
    return res


# ----------------------------------------------------------------------------------------------- replay
def replay(rp):
    t = rp["task"]
    if rp["engine"] == "C08-ovr":
        r = check_override((tuple((n, bool(d)) for n, d in t[0]), tuple((n, bool(d)) for n, d in t[1]), t[2], (tuple(t[3][0]), tuple(t[3][1])), t[4]))
        for s in rp.get("extra_sources", []):
            print("# second source\n" + s)
    elif rp["engine"] == "C08-scope":
        r = check_scope((tuple(t[0]), tuple(t[1]), t[2], t[3], tuple(tuple(e) for e in t[4])))
    else:
        r = check_group((t[0], tuple(t[1]), (tuple(t[2][0]), tuple(t[2][1])), t[3], t[4]))
    print(rp["source"])
    for sig, what, _i in r["viol"]:
        print(sig, ":", what)
    if not r["viol"]:
        print("no violation on this tree; recorded:", rp.get("what"))
    return 0
