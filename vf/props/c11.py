"""C11 - a saved or aged conversation state continues exactly like the live one.

For every state reachable (BFS, all tie-breaks) within depth D of each program, two cut
transitions are taken:
   SAVE_RESTORE  s' = json_to_state(state_to_json(s))
   AGE           the virtual clock jumps by 6 s (the interpreter discards long-finished instances
                 at the start of the next event)
and then *every* continuation of length <= d is run in lock-step on the live copy and on the
cut copy with identical uid counters and choice vectors.  Oracle: no exception from
save/restore; identical outgoing events in every step; identical structural dumps (restore).
"""
from __future__ import annotations

import itertools
import json
from collections import deque as _deque

from vf import seams
from vf.engines import v2x
from vf.engines.v2x import sm
from nemoguardrails.colang.v2_x.runtime.serialization import json_to_state, state_to_json

PROP = "C11"


def ind(lines, n=1):
    return "".join("  " * n + l + "\n" for l in lines)


# ----------------------------------------------------------------------------- programs
ZOO = {
    # name: (assignment expr, use in an emitted event, optional match pattern use)
    "set": ('{"a", "b"}', "len($v)", None),
    "nested-list": ('[1, [2, {"k": "v"}], "x"]', "$v[1][1]", None),
    "nested-dict": ('{"k": [1, 2], "m": {"n": None}}', '$v["k"][1]', None),
    "dict-int-keys": ('{1: "one", 2: "two"}', "$v[1]", None),
    "dict-mixed-keys-str-first": ('{"k": "v", 1: "one", 2: "two"}', "$v[1]", None),
    "dict-mixed-keys-int-first": ('{1: "one", "k": "v"}', "$v[1]", None),
    "dict-float-bool-none-keys": ('{1.5: "f", True: "t", None: "n"}', "$v[1.5]", None),
    "nested-dict-int-keys": ('{"outer": {1: "one"}, "l": [{2: "two"}]}', '$v["l"][0][2]', None),
    "set-of-mixed": ('{1, "a", 2.5}', "len($v)", None),
    "regex": ('regex("^a.*")', '"x"', "$v"),
    "comparison": ("less_than(3)", '"x"', "$v"),
    "float-bool-none": ("[1.5, True, None]", "$v[0]", None),
    "string-with-quotes": ("'he said \"hi\" {{x}}'", "$v", None),
}


def zoo_program(name):
    expr, use, pat = ZOO[name]
    body = [f"$v = {expr}", "match E1()", f"send Echo(v={use})"]
    if pat:
        body += [f"match E2(p={pat})", "send Echo2()"]
    else:
        body += ["match E2()", f"send Echo2(v={use})"]
    body += ["match Never()"]
    return "flow main\n" + ind(body)


REF_PROGRAMS = {
    "flow-ref": "flow c $n\n  match E2(n=$n)\n  send CM(n=$n)\n  match E3()\n\nflow main\n  start c 1 as $fr\n  match E1()\n  send Echo(st=str($fr.status), n=$fr.n)\n  match $fr.Finished()\n  send Echo2()\n  match Never()\n",
    "action-ref": "flow main\n  start ActMAction(p=[1, 2]) as $ar\n  match E1()\n  send Echo(st=str($ar.status))\n  match $ar.Finished() as $ev\n  send Echo2(r=$ev.return_value)\n  match Never()\n",
    "action-args-with-containers": "flow main\n  start ActMAction(p={\"a\", \"b\"}, q={1: \"one\"}, r=regex(\"^a\")) as $ar\n  match E1()\n  send Echo(n=len($ar.p))\n  match $ar.Finished() as $ev\n  send Echo2(r=$ev.return_value)\n  match Never()\n",
    "event-ref": "flow main\n  match E1() as $ev\n  send Echo(p=$ev.p)\n  match E2()\n  send Echo2(p=$ev.p, q=$ev.q)\n  match Never()\n",
    "shared-action": "flow s1\n  match E1()\n  start ActSAction() as $a\n  match E2()\n  send S1(st=str($a.status))\n  match Never()\n\nflow s2\n  match E1()\n  start ActSAction() as $a\n  match E3()\n\nflow main\n  start s1\n  start s2\n  match Never()\n",
    "global-var": "flow c\n  global $g\n  match E2()\n  $g = $g + 1\n  send CM(g=$g)\n\nflow main\n  global $g\n  $g = 10\n  activate c\n  match E1()\n  send Echo(g=$g)\n  match E3()\n  send Echo2(g=$g)\n  match Never()\n",
    "forked-heads": "flow main\n  match (E1() and E2()) or E3()\n  send Echo()\n  match E1() or E2()\n  send Echo2()\n  match Never()\n",
    "when-scope": "flow c\n  match E2()\n\nflow main\n  when c\n    send Echo()\n  or when Act1Action()\n    send Echo2()\n  else\n    send Echo3()\n  match E3()\n  send Echo4()\n  match Never()\n",
    "activated-restart": "flow g\n  match E1()\n  start ActGAction()\n  match E2()\n\nflow a1\n  activate g\n  match E3()\n\nflow main\n  start a1\n  match Never()\n",
    "while-loop": "flow main\n  $i = 0\n  while $i < 3\n    match E1()\n    $i = $i + 1\n    send Echo(i=$i)\n  send Echo2()\n  match Never()\n",
    "flow-params-return": "flow c $a $b=2\n  match E1()\n  return [$a, $b]\n\nflow main\n  $x = await c 1\n  send Echo(x=$x)\n  match E2()\n  send Echo2(x=$x[1])\n  match Never()\n",
    # two variables / a variable and a flow parameter refer to ONE container that is later changed in place
    "aliased-list": "flow main\n  $a = [1]\n  $b = $a\n  match E1()\n  ($a.append(2))\n  send Echo(n=len($b))\n  match E2()\n  ($b.append(3))\n  send Echo2(n=len($a))\n  match Never()\n",
    "aliased-dict": "flow main\n  $a = {\"k\": 1}\n  $b = $a\n  match E1()\n  ($a.update({\"j\": 2}))\n  send Echo(n=len($b))\n  match Never()\n",
    "list-shared-with-callee": "flow c $l\n  match E1()\n  ($l.append(2))\n  match E3()\n\nflow main\n  $a = [1]\n  start c $a\n  match E2()\n  send Echo(n=len($a))\n  match Never()\n",
    # one compiled regular expression held in two places (re.compile caches: equal patterns are one object)
    "regex-held-twice": "flow c $r\n  match E1(p=$r)\n  send CM()\n  match E3()\n\nflow main\n  $x = regex(\"a\")\n  $y = regex(\"a\")\n  start c $x\n  match E2(p=$y)\n  send Echo()\n  match Never()\n",
    # an action that is only reachable through state.actions when the state is saved (its reference variable was
    # overwritten by the next loop iteration); the State carries a RailsConfig like every State made by LLMRails
    "action-in-loop": "flow main\n  while True\n    match E1()\n    await ActLAction(script=\"Hello!\") as $r\n    send Echo()\n",
    # a flow that keeps the Started event of its own instance (the event's `flow` member is the flow: a reference cycle)
    "own-started-event": "flow tracked\n  match FlowStarted(flow_id=\"tracked\") as $started\n  match E1()\n  send Echo(f=$started.flow_id)\n  match E3()\n\nflow main\n  start tracked\n  match Never()\n",
    # the Finished event of an action whose flow is over (Stop was sent) arrives later; `$e.action` is looked at
    "event-action-of-ended-flow": "flow speaker\n  start SpeechBotAction(script=\"a long speech\") as $speech\n  match E1()\n\nflow main\n  start speaker\n  match SpeechBotAction.Finished() as $e\n  send Echo(a=str($e.action.start_event_arguments))\n  match Never()\n",
    # an activated flow that failed while matching (it is not restarted) is activated a second time later on
    "activated-flow-failed-while-matching-then-activated-again": "flow g\n  global $pat\n  match E1(p=regex($pat))\n  send Pong()\n\nflow fixer\n  global $pat\n  match E2()\n  $pat = \"a\"\n\nflow main\n  global $pat\n  $pat = \"(\"\n  activate g\n  start fixer\n  match E3()\n  activate g\n  send Again()\n  match Never()\n",
    "activated-flow-finished-then-activated-again": "flow g\n  match E1()\n  send Pong()\n  match E2()\n\nflow a1\n  activate g\n  match E2()\n\nflow main\n  start a1\n  match E3()\n  activate g\n  send Again()\n  match Never()\n",
    # two activators of one flow, both deactivate it (one after the other); idle time afterwards
    "two-activators-deactivate": "flow helper\n  match E1()\n  send Tock()\n\nflow b\n  activate helper\n  match E3()\n  deactivate helper\n  match Never()\n\nflow main\n  activate helper\n  start b\n  match E2()\n  deactivate helper\n  match Never()\n",
    # a request naming a flow whose only instance ended long ago: whether it counts as handled (no UnhandledEvent)
    # must not depend on the clean-up having discarded the ended instance
    "stop-request-for-an-ended-flow": "flow helper\n  match E1()\n\nflow watcher\n  match UnhandledEvent(event=\"StopFlow\")\n  send Nobody()\n\nflow main\n  activate watcher\n  start helper\n  match E2()\n  send StopFlow(flow_id=\"helper\")\n  match Never()\n",
    "finish-request-for-an-ended-flow": "flow helper\n  match E1()\n\nflow watcher\n  match UnhandledEvent(event=\"FinishFlow\")\n  send Nobody()\n\nflow main\n  activate watcher\n  start helper\n  match E2()\n  send FinishFlow(flow_id=\"helper\")\n  match Never()\n",
    # group statements with a scope: a member flow finishes long before the formula becomes true (the clean-up discards
    # the finished member; the end of the scope still lists it)
    "group-scope-member-finishes-early": "flow fa\n  match E1()\n\nflow fb\n  match E2()\n\nflow fc\n  match E3()\n\nflow main\n  await (fa and fb) or fc\n  send Echo()\n  match Never()\n",
    "when-group-member-finishes-early": "flow fa\n  match E1()\n\nflow fb\n  match E2()\n\nflow main\n  when fa and fb\n    send Echo()\n  or when E3()\n    send Echo2()\n  match Never()\n",
    # a member read through attribute syntax out of a dict literal is a list of attribute-style dicts (`$data.people`); it is kept in a variable
    "attribute-style-dicts-in-a-list": "flow main\n  $data = {\"people\": [{\"name\": \"Ann\"}]}\n  $p = $data.people\n  match E1()\n  send Echo(n=$p[0].name, a=$p[0].age)\n  match Never()\n",
    "attribute-style-dict-in-a-variable": "flow main\n  $data = {\"who\": {\"name\": \"Ann\"}}\n  $w = $data.who\n  match E1()\n  send Echo(n=$w.name, a=$w.age)\n  match Never()\n",
    "await-then-finish": "flow c\n  match E1()\n  match E2()\n\nflow d\n  match E1()\n\nflow main\n  start c\n  await d\n  send Echo()\n  match E3()\n  send Echo2()\n  match Never()\n",
}

EVENTS = [("ext", "E1", {"p": "ab", "q": [1, {"z": 2}]}), ("ext", "E2", {"n": 1, "p": "abc"}), ("ext", "E3", {}), ("ext", "X", {})]


_EXTRA_EVENTS = []     # per task: the hierarchy hosts of C06 end their second activator on E4


def alphabet(state):
    evs = list(EVENTS) + _EXTRA_EVENTS
    for k in range(min(2, len(v2x.pending_actions(state)))):
        evs.append(("act", k, "Finished", {"return_value": "rv"}))
    return evs


def all_outcomes(state, uid_n, conc):
    """Every tie-break outcome of one step: yields (vector, new_state, new_uid_n)."""
    stack = [[]]
    while stack:
        vec = stack.pop()
        st = v2x.copy_state(state)
        points, n2, _ = v2x.step(st, conc, vec, uid_n)
        taken = [k for k, _ in points]
        for i in range(len(vec), len(points)):
            for alt in range(1, points[i][1]):
                stack.append(taken[:i] + [alt])
        yield tuple(taken), st, n2


C09_ON_CUT_STATES = False
CUT_KINDS = ("SAVE_RESTORE", "AGE", "AGE_EACH", "RESTORE_AGED")


class Mismatch(Exception):
    def __init__(self, sig, what, trail):
        self.sig, self.what, self.trail = sig, what, trail


def lockstep(live, cut, uid_n, depth, trail, kind, stats, base_t, k=0):
    """Explore all continuations of length <= depth on both copies."""
    if depth == 0:
        return
    for aev in alphabet(live):
        conc_l = v2x.resolve_event(live, aev)
        # AGE: the clean-up may already have dropped a still pending action of a discarded flow from
        # state.actions; that alone is not observable, so the same concrete event is fed to both
        conc_c = v2x.resolve_event(cut, aev) if kind == "SAVE_RESTORE" else (
            None if conc_l is None else (dict(conc_l) if isinstance(conc_l, dict) else v2x.resolve_event(cut, aev)))
        if (conc_l is None) != (conc_c is None) or (isinstance(conc_l, dict) and conc_l != conc_c):
            raise Mismatch(f"{kind}:pending-actions-differ", f"after {kind} the set of pending actions differs ({conc_l} vs {conc_c})", trail + [aev])
        if conc_l is None:
            continue
        seams.clock().t = base_t
        try:
            outs_live = list(all_outcomes(live, uid_n, conc_l))
        except (seams.StepBudgetExceeded, seams.ChoiceExhausted):
            raise
        except Exception as e:
            # the LIVE state cannot process the event: not a difference between live and cut state (C11 has nothing to
            # compare), but C09's business when it hosts this exploration
            if C09_ON_CUT_STATES and len(stats.setdefault("_c09_viol", [])) < 3:
                stats["_c09_viol"].append((f"event-processing-raised:{type(e).__name__}", f"event {aev[1] if aev[0] == 'ext' else aev} on a reachable state raised {e!r}", trail + [aev]))
            stats["live_steps_raising"] = stats.get("live_steps_raising", 0) + 1
            continue
        for vec, st_l, n_l in outs_live:
            st_c = v2x.copy_state(cut)
            seams.clock().t = _cut_time(base_t, kind, k)
            try:
                points, n_c, _ = v2x.step(st_c, conc_c, list(vec), uid_n)
            except Exception as e:
                raise Mismatch(f"{kind}:continuation-raises:{type(e).__name__}",
                               f"after {kind}, event {aev[1] if aev[0] == 'ext' else aev} raises {e!r} (live state continues normally)",
                               trail + [aev])
            finally:
                seams.clock().t = base_t
            stats["lockstep_steps"] += 1
            o_l, o_c = v2x.out_events(st_l), v2x.out_events(st_c)
            if tuple(k for k, _ in points) != vec:
                raise Mismatch(f"{kind}:tie-break-structure-differs", f"choice points differ after {kind}: live {vec}, cut {points}", trail + [aev])
            if o_l != o_c:
                raise Mismatch(f"{kind}:outgoing-events-differ",
                               f"after {kind}, event {aev[1] if aev[0] == 'ext' else aev}: live emits {[e['type'] for e in o_l]} "
                               f"{_short(o_l)}, cut state emits {[e['type'] for e in o_c]} {_short(o_c)}", trail + [aev])
            if o_l:
                stats["lockstep_steps_with_output"] += 1
            # what the library's state-reading actions answer (CheckValidFlowExistsAction: `flow_id in state.flow_id_states`)
            q_l, q_c = _state_queries(st_l), _state_queries(st_c)
            if q_l != q_c:
                diff = sorted(k for k in q_l if q_l[k] != q_c.get(k))
                raise Mismatch(f"{kind}:state-reading-action-answers-differ",
                               f"after {kind}, event {aev[1] if aev[0] == 'ext' else aev}: `flow_id in state.flow_id_states` (CheckValidFlowExistsAction) "
                               f"differs for {diff}: live {[q_l[k] for k in diff]}, cut {[q_c.get(k) for k in diff]}", trail + [aev])
            if C09_ON_CUT_STATES:
                # C09 piggybacks: its invariant is evaluated on every state reached after a cut
                from vf.props import c09 as _c09
                probs, _ = _c09.problems(st_c, allow_missing_parent=kind != "SAVE_RESTORE")
                stats["c09_states_checked"] = stats.get("c09_states_checked", 0) + 1
                if probs and len(stats.setdefault("_c09_viol", [])) < 3:
                    stats["_c09_viol"].append((probs[0][0] + ":after-" + kind, probs[0][1], trail + [aev]))
            if kind == "SAVE_RESTORE":
                a, b = repr(v2x.dump_state(st_l)), repr(v2x.dump_state(st_c))
                if a != b:
                    raise Mismatch(f"{kind}:state-differs-after-continuation", "structural dumps differ after an identical continuation", trail + [aev])
            lockstep(st_l, st_c, n_l, depth - 1, trail + [aev], kind, stats, base_t, k + 1)


import datetime as _dt

_6S = _dt.timedelta(seconds=6)


def _cut_time(base_t, kind, k):
    """virtual time at which continuation step k runs on the cut copy: AGE = 6 s of idle time once, before the
    continuation; AGE_EACH = 6 s of idle time before every continuation step (instances that finish during the
    continuation age out as well); RESTORE_AGED = the state is saved, restored, and every continuation step comes
    after 6 s of idle time (a server handing the stored state back minutes later)"""
    if kind == "AGE":
        return base_t + _6S
    if kind in ("AGE_EACH", "RESTORE_AGED"):
        return base_t + _6S * (k + 1)
    return base_t


def _sync(coro):
    """run a coroutine that never really waits"""
    try:
        coro.send(None)
    except StopIteration as e:
        return e.value
    raise RuntimeError("HARNESS-ERROR: a state-reading action suspended")


def _state_queries(state):
    """what the library's REAL state-reading actions answer for every flow of the program (the methods do not use `self`)"""
    from nemoguardrails.actions.v2_x.generation import LLMGenerationActionsV2dotx as A
    out = {}
    for fid in state.flow_configs:
        out[fid] = (_sync(A.check_if_flow_exists(None, state, fid)), _sync(A.check_if_flow_defined(None, state, fid)))
    return out


def _short(o):
    return json.dumps(o, default=repr)[:200]


def explore(task):
    name, src, depth, cont = task
    _EXTRA_EVENTS[:] = [("ext", "E4", {})] if (name.startswith("c06:") and "E4()" in src) else []
    stats = {"programs": 1, "states": 0, "transitions": 0, "cuts_save_restore": 0, "cuts_age": 0,
             "lockstep_steps": 0, "lockstep_steps_with_output": 0, "aged_cuts_that_discarded_instances": 0,
             "traces_validated_against_impl": 0}
    viol = []
    info0 = {"engine": "C11", "program": name, "source": src}
    base_t = seams.clock().t
    try:
        st = v2x.init_state(src, with_rails_config=name in REF_PROGRAMS or name in ZOO)
    except Exception as e:
        return {"stats": stats, "viol": [(f"program-rejected:{name}", repr(e), info0)]}
    frontier = _deque([(st, v2x.UIDS.n, (), 0)])
    seen = {v2x.canon_key(st)}
    stats["states"] = 1
    sigs = set()
    while frontier:
        state, uid_n, hist, d = frontier.popleft()
        # ---- cut transitions at this state
        for kind in CUT_KINDS:
            trail = [list(h) for h in hist]
            try:
                if kind == "SAVE_RESTORE":
                    stats["cuts_save_restore"] += 1
                    try:
                        js = state_to_json(v2x.copy_state(state))
                        cut = json_to_state(js)
                    except RecursionError as e:
                        raise Mismatch("SAVE_RESTORE:raises:RecursionError", "state_to_json/json_to_state: RecursionError", trail)
                    except Exception as e:
                        raise Mismatch(f"SAVE_RESTORE:raises:{type(e).__name__}:{_cls(e)}", f"state_to_json/json_to_state raised {e!r}", trail)
                    # the copy shares nothing with the live state
                    a, b = repr(v2x.dump_state(state)), repr(v2x.dump_state(cut))
                    if a != b:
                        raise Mismatch("SAVE_RESTORE:restored-state-differs", "structural dump of the restored state differs from the live state: " + _first_diff(a, b), trail)
                elif kind == "RESTORE_AGED":
                    stats["cuts_restore_aged"] = stats.get("cuts_restore_aged", 0) + 1
                    try:
                        cut = json_to_state(state_to_json(v2x.copy_state(state)))
                    except Exception:
                        continue  # reported by the SAVE_RESTORE cut of this state
                else:
                    stats["cuts_age"] += 1
                    cut = v2x.copy_state(state)
                    if any(sm._is_done_flow(f) and f.activated == 0 for f in state.flow_states.values()):
                        stats["aged_cuts_that_discarded_instances"] += 1
                lockstep(v2x.copy_state(state), cut, uid_n, cont, trail, kind, stats, base_t)
            except Mismatch as m:
                if kind == "RESTORE_AGED" and any(x.startswith("SAVE_RESTORE:") for x in sigs):
                    continue  # the plain save/restore cut of this program already diverges: same defect, already reported
                if m.sig not in sigs:
                    sigs.add(m.sig)
                    viol.append((f"{m.sig}:{name}" if name in ZOO or name in REF_PROGRAMS else m.sig, f"[{name}] " + m.what,
                                 dict(info0, cut=kind, history=[_j(h) for h in m.trail[:len(hist)]], continuation=[_j(h) for h in m.trail[len(hist):]])))
        if d >= depth:
            continue
        # ---- ordinary transitions
        if d == 0:
            evs = [("start_main",)]
        else:
            evs = alphabet(state)
        for aev in evs:
            conc = v2x.resolve_event(state, aev)
            if conc is None:
                continue
            seams.clock().t = base_t
            try:
                outs = list(all_outcomes(state, uid_n, conc))
            except (seams.StepBudgetExceeded, seams.ChoiceExhausted):
                raise
            except Exception as e:
                if C09_ON_CUT_STATES and len(stats.setdefault("_c09_viol", [])) < 3:
                    stats["_c09_viol"].append((f"event-processing-raised:{type(e).__name__}", f"event {aev[1] if aev[0] == 'ext' else aev} on a reachable state raised {e!r}", [list(h) for h in hist] + [aev]))
                stats["live_steps_raising"] = stats.get("live_steps_raising", 0) + 1
                continue
            for vec, st2, n2 in outs:
                stats["transitions"] += 1
                key = v2x.canon_key(st2)
                if key in seen:
                    continue
                seen.add(key)
                stats["states"] += 1
                frontier.append((st2, n2, hist + ((aev, vec),), d + 1))
    c09v = [(sig, what, dict(info0, cut=sig.rsplit("after-", 1)[-1], trail=[_j(h) for h in tr])) for sig, what, tr in stats.pop("_c09_viol", [])]
    return {"stats": stats, "viol": viol, "c09": c09v, "sample": {"program": name, "states": stats["states"], "lockstep_steps": stats["lockstep_steps"]}}


def _cls(e):
    s = str(e)
    for key in ("Pattern", "ComparisonExpression", "set", "tuple", "not JSON serializable", "Unhandled type"):
        if key in s:
            return key.replace(" ", "-")
    return "other"


def _first_diff(a, b):
    i = next((k for k in range(min(len(a), len(b))) if a[k] != b[k]), min(len(a), len(b)))
    return f"...{a[max(0, i - 60):i + 60]!r} vs ...{b[max(0, i - 60):i + 60]!r}"


def _j(h):
    if isinstance(h, (list, tuple)) and len(h) == 2 and isinstance(h[1], (list, tuple)) and (not h[1] or isinstance(h[1][0], int)) and isinstance(h[0], (list, tuple)):
        return [list(h[0]), list(h[1])]
    return list(h) if isinstance(h, tuple) else h


def tasks(tier):
    depth, cont = (4, 2) if tier == "quick" else (5, 3)
    out = []
    for name in ZOO:
        out.append((name, zoo_program(name), depth, cont))
    for name, src in REF_PROGRAMS.items():
        out.append((name, src, depth, cont))
    # hosts: hierarchy programs of C06, group programs of C07, library flows of C09 (deterministic subsets in quick)
    from vf.props import c06, c07
    c6 = [t for t in c06.tasks(tier) if len(t) == 7]
    step = 4 if tier == "quick" else 1
    for i, t in enumerate(c6):
        if i % step == 0:
            out.append((f"c06:{t[5]['t']}:{i}", t[0], 3 if tier == "quick" else 4, 2))
    fs = c07.formulas(3 if tier == "quick" else 4)
    for i, f in enumerate(fs):
        for form in ("match_events", "await_flows", "when_flows", "when_events", "start_match_flows"):
            out.append((f"c07:{form}:{i}", c07.program(f, form).replace("E0()", "E3()").replace("Done()", "Never()"), depth, 2))
    return out


def run(rep, tier):
    from vf import par

    ts = tasks(tier)
    if rep.seed:
        import random
        random.Random(rep.seed).shuffle(ts)
    agg = {}
    n = 0
    for r in par.pmap(explore, ts):
        n += 1
        for k, v in r["stats"].items():
            agg[k] = agg.get(k, 0) + v
        for sig, what, info in r["viol"]:
            rep.violation(sig, what, info)
        if "sample" in r and n % max(1, len(ts) // 5) == 0:
            rep.sample(r["sample"])
    for k, v in agg.items():
        rep.set(k, v)
    agg_cuts = agg.get("cuts_save_restore", 0) + agg.get("cuts_age", 0)
    rep.set("cut_points", agg_cuts)
    rep.set("traces_validated_against_impl", agg.get("lockstep_steps", 0))
    rep.set("evaluations", agg.get("lockstep_steps", 0))
    rep.set("distinct_nontrivial", agg.get("lockstep_steps_with_output", 0))
    rep.set("rule", "every reachable state (depth bound) of every program is a cut point for SAVE_RESTORE and AGE; every continuation (length bound) is run on live and cut copy; non-trivial = lock-step steps that produced outgoing events")
    # ---- API part: snapshots handed out by generate_async (vf/props/c11_api.py)
    from vf.props import c11_api
    if tier == "quick":
        ats = [("double-submit", 2, 60), ("abandon-and-retry", 3, 60), ("abandon-retry-and-double-submit", 1, 60)]
    else:
        ats = [("double-submit", 5, 600), ("triple-submit", 3, 600), ("abandon-and-retry", 6, 600), ("abandon-retry-and-double-submit", 3, 600)]
    api = {"executions": 0, "states": 0, "transitions": 0, "validated": 0, "overlapping_executions": 0, "cancelled_executions": 0,
           "continuations_checked": 0, "distinct_outcomes": 0}
    api_complete = True
    for r in par.pmap(c11_api.explore, ats):
        for k in api:
            api[k] += r.get(k, 0)
        api_complete = api_complete and r["complete"]
        for sig, what, info in r["viol"]:
            rep.violation(sig, what, info)
    for k, v in api.items():
        rep.set("api_" + k, v)
    rep.set("api_scenarios", [f"{a[0]} (deviation bound {a[1]})" for a in ats])
    rep.set("api_complete_within_deviation_bounds", api_complete)
    # ---- local async actions through the non-blocking process_events API (vf/props/c11_async.py)
    from vf.props import c11_async
    asy = {"executions": 0, "cut_executions": 0, "schedules": 0, "executions_with_a_pending_action_at_a_cut": 0, "results_delivered": 0}
    for r in par.pmap(c11_async.explore, c11_async.tasks(tier)):
        for k in asy:
            asy[k] += r.get(k, 0)
        for sig, what, info in r["viol"]:
            rep.violation(sig, what, info)
    for k, v in asy.items():
        rep.set("async_actions_" + k, v)
    rep.set("exhaustive", True)
    rep.assumptions += [
        "async part: RuntimeV2_x.process_events (non-blocking) with local actions registered execute_async=True whose completion the harness gates; 4 calls (Begin + polls), every subset of the call boundaries as save/restore points x every assignment of action completions to boundaries x both report orders of actions finishing between the same two calls (asyncio.wait's done set is handed to the runtime as an ordered list); reference = the uncut execution of the same schedule",
        "API part: a Colang 2.x world (core library, one LLM value generation in turn 2); turn 1 on the shared LLMRails instance, then requests that all carry the snapshot of turn 1 (double / triple submit, a request cancelled at any point and retried) on the virtual asyncio loop, every arrival / LLM completion / timer / cancellation order up to the stated number of deviations from the default schedule; oracle = a fresh instance restoring the same snapshot (reply, and the reply of the following turn continued from the returned state)",
        "programs: variable zoo (sets, nested containers, int-key dicts, regex, comparison expressions, tuples), references to flows/actions/events, shared actions, globals, forked heads, when scopes, activation restart, loops, flow parameters + deterministic subsets of the C06 hierarchy programs and C07 group programs",
        "live and cut copies continue with the same uid counter and the same tie-break vector, so outgoing events must be *equal* (not just equal up to renaming)",
        "AGE = virtual clock + 6 s before the continuation (clean-up threshold is 5 s); in the live copy the clock does not advance",
    ]
    rep.sample({"zoo_program": zoo_program("set")})


def replay(rp):
    if rp.get("part") == "api":
        from vf.props import c11_api
        return c11_api.replay(rp)
    if rp.get("engine") == "C11-async":
        from vf.props import c11_async
        return c11_async.replay(rp)
    src = rp["source"]
    st = v2x.init_state(src, with_rails_config=rp.get("program") in REF_PROGRAMS or rp.get("program") in ZOO)
    n = v2x.UIDS.n
    print(src)
    for aev, vec in [(tuple(h[0]), h[1]) for h in rp["history"]]:
        aev = tuple(aev[:2]) + tuple(aev[2:])
        conc = v2x.resolve_event(st, aev)
        _, n, _ = v2x.step(st, conc, list(vec), n)
        print("history", aev[:2], "->", [e["type"] for e in st.outgoing_events])
    base_t = seams.clock().t
    live = v2x.copy_state(st)
    try:
        cut = json_to_state(state_to_json(v2x.copy_state(st))) if rp["cut"] in ("SAVE_RESTORE", "RESTORE_AGED") else v2x.copy_state(st)
    except Exception as e:
        print("save/restore raised", repr(e))
        print(rp["what"])
        return 0
    for _k, aev in enumerate([tuple(h) for h in rp["continuation"]]):
        cl, cc = v2x.resolve_event(live, aev), v2x.resolve_event(cut, aev)
        seams.clock().t = base_t
        _, n2, _ = v2x.step(live, cl, [], n)
        seams.clock().t = _cut_time(base_t, rp["cut"], _k)
        try:
            v2x.step(cut, cc, [], n)
            print(rp["cut"], "continuation", aev[:2], "live:", v2x.out_events(live), "cut:", v2x.out_events(cut))
        except Exception as e:
            print(rp["cut"], "continuation", aev[:2], "live:", v2x.out_events(live), "cut raised", repr(e))
        n = n2
    seams.clock().t = base_t
    print(rp["what"])
    return 0
