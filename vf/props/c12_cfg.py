"""C12 - abstract control-flow graph of a compiled Colang 2.x flow (an abstraction of
`statemachine.slide` / `_advance_head_front` / pattern-failure handling) and the direct
offset check for Colang 1.0 element lists.

Abstract state of one head:  (position, catch-label stack, open scopes, registered forks)
One abstract edge == one assignment to `FlowHead.position` in the implementation.
"""
from __future__ import annotations

import re
from collections import deque

from nemoguardrails.colang.v2_x.lang.colang_ast import (
    Abort,
    Assignment,
    BeginScope,
    Break,
    CatchPatternFailure,
    Continue,
    EndScope,
    ForkHead,
    Global,
    Goto,
    If,
    Label,
    Log,
    MergeHeads,
    Print,
    Priority,
    Return,
    Spec,
    SpecOp,
    WaitForHeads,
    When,
    While,
)
from nemoguardrails.colang.v2_x.runtime.flows import InternalEvents

# element classes `slide` has an isinstance branch for (statemachine.slide, in order)
PRIMITIVE_CLASSES = (
    Label, Goto, ForkHead, MergeHeads, WaitForHeads, Assignment, Return, Abort,
    Continue, Break, Log, Print, Priority, Global, CatchPatternFailure, BeginScope, EndScope,
)
# SpecOp.op values that exist after expansion: `send` / `_new_action_instance` slide,
# everything else blocks the head; only `match` is ever advanced by an event.
PRIMITIVE_OPS = ("send", "match", "_new_action_instance")
COMPOSITE_CLASSES = (If, When, While)
COMPOSITE_DICT_TYPES = (
    "if_stmt", "while_stmt", "when_stmt", "spec_op", "spec_or", "spec_and", "elif_", "orwhen_",
)
MAX_CATCH_DEPTH = 12
MAX_STATES = 20000

UUID_TAIL = re.compile(r"[0-9a-f]{8}_[0-9a-f]{4}_[0-9a-f]{4}_[0-9a-f]{4}_[0-9a-f]{12}")


def norm_label(name):
    """label name without the uid part (stable signatures)"""
    if name is None:
        return "None"
    return UUID_TAIL.sub("#", str(name))


def kind_of(e) -> str:
    """Short class name of an element as `slide` would dispatch it."""
    if isinstance(e, SpecOp):
        grp = "" if isinstance(e.spec, Spec) else ":group"
        return f"SpecOp:{e.op}{grp}"
    if isinstance(e, dict):
        return f"dict:{e.get('_type')}"
    return type(e).__name__


def is_composite(e) -> bool:
    if isinstance(e, COMPOSITE_CLASSES):
        return True
    if isinstance(e, SpecOp):
        return e.op not in PRIMITIVE_OPS or not isinstance(e.spec, Spec)
    if isinstance(e, dict):
        return e.get("_type") in COMPOSITE_DICT_TYPES
    return False


def is_ignored(e) -> bool:
    """elements that fall into slide's final `else: head.position += 1`"""
    return not isinstance(e, SpecOp) and not isinstance(e, PRIMITIVE_CLASSES) and not is_composite(e)


class Problem:
    __slots__ = ("sig", "what", "detail")

    def __init__(self, sig, what, detail=None):
        self.sig, self.what, self.detail = sig, what, detail or {}

    def as_dict(self):
        return {"signature": self.sig, "what": self.what, "detail": self.detail}


class Cfg:
    """Result of the exploration of one flow."""

    def __init__(self, flow_id, n):
        self.flow_id = flow_id
        self.n = n
        self.edges = set()      # (old, new)  == one `head.position = ...`
        self.edge_kind = {}     # (old,new) -> kind
        self.states = set()     # (pos, catch, scopes, forks)
        self.proj = set()       # (pos, catch, scopes)
        self.problems = []      # list[Problem]
        self.kinds = {}         # element kind -> count (static)
        self.ignored = 0
        self.capped = False
        self.ntrans = 0         # state-level transitions
        self.loop_exits_no_label = 0   # Break / Continue(label=None) outside of every loop (static)
        self._scopes_at = None

    def scopes_at(self):
        """(pos, catch) -> list of abstract scope sets"""
        if self._scopes_at is None:
            d = {}
            for p, c, sc in self.proj:
                d.setdefault((p, c), []).append(sc)
            self._scopes_at = d
        return self._scopes_at


def static_check(fc, cfg: Cfg):
    els = fc.elements
    labels = fc.element_labels
    n = len(els)
    pr = cfg.problems
    loops = []  # (begin_pos, end_pos) of `_while_begin_x` / `_while_end_x` label pairs
    for name, pos in labels.items():
        if not (0 <= pos < n) or not isinstance(els[pos], Label) or els[pos].name != name:
            pr.append(Problem(
                "v2:label-table-inconsistent",
                f"flow `{fc.id}`: element_labels[{norm_label(name)}]={pos} is not that Label element",
                {"label": name, "pos": pos}))
        if name.startswith("_while_begin_"):
            end = labels.get("_while_end_" + name[len("_while_begin_"):])
            if end is not None:
                loops.append((pos, end))
    for i, e in enumerate(els):
        k = kind_of(e)
        cfg.kinds[k] = cfg.kinds.get(k, 0) + 1
        if is_composite(e):
            pr.append(Problem(
                f"v2:composite-left:{k}",
                f"flow `{fc.id}`: element {i} is an unexpanded composite ({k}) after initialize_state",
                {"pos": i, "kind": k}))
            continue
        if is_ignored(e):
            cfg.ignored += 1
            continue
        refs = []
        if isinstance(e, Goto):
            refs = [e.label]
        elif isinstance(e, ForkHead):
            refs = list(e.labels)
        elif isinstance(e, CatchPatternFailure) and e.label is not None:
            refs = [e.label]
        elif isinstance(e, (Break, Continue)):
            if e.label is not None:
                refs = [e.label]
            elif any(b < i < en for b, en in loops):
                pr.append(Problem(
                    f"v2:loop-exit-unresolved:{type(e).__name__}",
                    f"flow `{fc.id}`: {type(e).__name__} at {i} lies inside a while loop but has no target label",
                    {"pos": i}))
            else:
                # `break` / `continue` outside of every loop: the statement names no loop exit, `slide` steps over
                # it (`if element.label is None: head.position += 1`) - no target, hence nothing that could point
                # outside the flow; the successor p+1 is an edge of the graph like any other (counted, and bound
                # to the interpreter by the edge family of c12.py)
                cfg.loop_exits_no_label += 1
        for r in refs:
            if r not in labels:
                pr.append(Problem(
                    f"v2:dangling-label:{type(e).__name__}:{_label_class(r)}",
                    f"flow `{fc.id}`: {type(e).__name__} at {i} refers to label `{norm_label(r)}` "
                    f"that is not defined in the flow ({len(labels)} labels)",
                    {"pos": i, "label": r}))
        if isinstance(e, MergeHeads):
            if not any(isinstance(x, ForkHead) and x.fork_uid == e.fork_uid for x in els):
                pr.append(Problem(
                    "v2:dangling-fork-uid:MergeHeads",
                    f"flow `{fc.id}`: MergeHeads at {i} refers to fork uid {e.fork_uid} without a ForkHead",
                    {"pos": i}))


def fingerprint(fc):
    """Everything `explore` / `static_check` read from a compiled flow, with the uid part of every label,
    scope and fork name replaced by the index of its first occurrence: two flows with the same fingerprint
    have the same abstract graph (up to that renaming) and the same problems."""
    ids = {}

    def canon(name):
        if name is None:
            return None
        return UUID_TAIL.sub(lambda m: "#%d" % ids.setdefault(m.group(0), len(ids)), str(name))

    out = []
    for e in fc.elements:
        k = kind_of(e)
        if isinstance(e, SpecOp):
            out.append((k, e.spec.name if isinstance(e.spec, Spec) else None))
        elif isinstance(e, Label):
            out.append((k, canon(e.name)))
        elif isinstance(e, Goto):
            out.append((k, canon(e.label), e.expression == "True"))
        elif isinstance(e, ForkHead):
            out.append((k, canon(e.fork_uid), tuple(canon(x) for x in e.labels)))
        elif isinstance(e, MergeHeads):
            out.append((k, canon(e.fork_uid)))
        elif isinstance(e, (CatchPatternFailure, Break, Continue)):
            out.append((k, canon(e.label)))
        elif isinstance(e, (BeginScope, EndScope)):
            out.append((k, canon(e.name)))
        else:
            out.append((k,))
    table = tuple(sorted((canon(n), p) for n, p in fc.element_labels.items()))
    return (tuple(out), table)


def duplicate_labels(fc):
    """number of label names that are defined by more than one Label element (the expansion of `when`
    emits the case part once per or-group and the else / end part once per case; `element_labels` keeps
    the last position).  Not a problem by itself: every reference still denotes one position of the flow."""
    seen = set()
    dup = set()
    for e in fc.elements:
        if isinstance(e, Label):
            if e.name in seen:
                dup.add(e.name)
            seen.add(e.name)
    return len(dup)


def shadowed_label_positions(fc):
    """positions of Label elements whose name the table resolves to another (later) position"""
    return [i for i, e in enumerate(fc.elements)
            if isinstance(e, Label) and fc.element_labels.get(e.name) != i]


def _label_class(name):
    s = norm_label(name)
    s = re.sub(r"_[a-z]_(\d+_)?label", "_label", s)      # case / group indices of `when`
    s = re.sub(r"(group|event)_\d+_#", r"\1_#", s)
    return s


def explore(fc) -> Cfg:
    """Explicit-state exploration of the flow's control-flow graph."""
    els = fc.elements
    labels = fc.element_labels
    n = len(els)
    cfg = Cfg(fc.id, n)
    static_check(fc, cfg)
    forks_by_uid = {}
    for i, e in enumerate(els):
        if isinstance(e, ForkHead):
            forks_by_uid.setdefault(e.fork_uid, []).append(i)
    # only forks that some MergeHeads refers to need to be remembered on a path
    merged_uids = {e.fork_uid for e in els if isinstance(e, MergeHeads)}

    pr = cfg.problems
    seen_sig = set()

    def problem(sig, what, detail):
        key = (sig, detail.get("pos"))
        if key in seen_sig:
            return
        seen_sig.add(key)
        pr.append(Problem(sig, what, detail))

    init = (0, (), frozenset(), frozenset())
    cfg.states.add(init)
    todo = deque([init])

    def edge(old, new, kind):
        if not (0 <= new <= n):
            problem(f"v2:target-out-of-range:{kind}",
                    f"flow `{fc.id}`: {kind} at {old} moves the head to {new}, outside [0,{n}]",
                    {"pos": old, "target": new})
            return False
        cfg.edges.add((old, new))
        cfg.edge_kind.setdefault((old, new), kind)
        return True

    def push(st):
        if st not in cfg.states:
            if len(cfg.states) >= MAX_STATES:
                cfg.capped = True
                return
            cfg.states.add(st)
            todo.append(st)

    while todo:
        st = todo.popleft()
        p, C, S, K = st
        cfg.proj.add((p, C, S))
        if p == n:
            continue
        e = els[p]

        def go(new, kind, C2=C, S2=S, K2=K, normal_end=True):
            if not edge(p, new, kind):
                return
            cfg.ntrans += 1
            if new == n and normal_end:
                if S2:
                    problem(
                        "v2:scope-open-at-end:" + _scope_origin(els, S2),
                        f"flow `{fc.id}`: the end of the flow is reached via {kind} at {p} with scope(s) "
                        f"{sorted(norm_label(x) for x in S2)} still open",
                        {"pos": p, "scopes": sorted(S2)})
                if C2:
                    problem(
                        "v2:catch-open-at-end:" + _label_class(C2[-1]),
                        f"flow `{fc.id}`: the end of the flow is reached via {kind} at {p} with failure "
                        f"handler(s) {[norm_label(x) for x in C2]} still installed",
                        {"pos": p, "catch": list(C2)})
            push((new, C2, S2, K2))

        if isinstance(e, SpecOp):
            if e.op == "_new_action_instance":
                go(p + 1, "new_action")
            elif e.op == "send" and isinstance(e.spec, Spec) and e.spec.name in InternalEvents.ALL:
                go(p + 1, "send_internal")
            else:
                # match: advanced by a matching event; send (action event): advanced after
                # action-conflict resolution; a failing match / a losing action is moved to the
                # innermost failure handler (the Label itself, `_advance_head_front` adds 1 then)
                go(p + 1, kind_of(e))
                if C and C[-1] in labels:
                    go(labels[C[-1]], "pattern_failure")
        elif isinstance(e, Label):
            go(p + 1, "Label")
        elif isinstance(e, Goto):
            if e.label in labels:
                go(labels[e.label] + 1, "Goto")
                if e.expression != "True":   # eval_expression("True") is the constant True
                    go(p + 1, "Goto_not_taken")
            else:
                go(p + 1, "Goto_invalid_label")
        elif isinstance(e, ForkHead):
            K2 = (K | {e.fork_uid}) if e.fork_uid in merged_uids else K
            for lb in e.labels:
                if lb in labels:
                    go(labels[lb], "ForkHead", K2=K2)
        elif isinstance(e, MergeHeads):
            if e.fork_uid not in K:
                problem("v2:merge-without-fork",
                        f"flow `{fc.id}`: MergeHeads at {p} is reachable on a path that never registered "
                        f"its fork uid", {"pos": p})
            for fp in forks_by_uid.get(e.fork_uid, ()):
                # the forking head takes over the position of the merging head
                edge(fp, p, "merge_join")
            go(p + 1, "MergeHeads", K2=K - {e.fork_uid})
        elif isinstance(e, WaitForHeads):
            go(p + 1, "WaitForHeads")
        elif isinstance(e, (Assignment, Log, Print, Priority, Global)):
            go(p + 1, type(e).__name__)
        elif isinstance(e, Return):
            go(n, "Return", normal_end=False)
        elif isinstance(e, Abort):
            if C:
                if C[-1] in labels:
                    go(labels[C[-1]] + 1, "Abort_caught")
            else:
                go(n, "Abort", normal_end=False)
        elif isinstance(e, (Continue, Break)):
            if e.label is None:
                go(p + 1, type(e).__name__ + "_no_label")
            elif e.label in labels:
                go(labels[e.label] + 1, type(e).__name__)
        elif isinstance(e, CatchPatternFailure):
            if e.label is None:
                if not C:
                    problem("v2:catch-pop-on-empty",
                            f"flow `{fc.id}`: CatchPatternFailure(label=None) at {p} pops an empty "
                            f"failure-handler stack", {"pos": p})
                else:
                    go(p + 1, "CatchPop", C2=C[:-1])
            else:
                if len(C) >= MAX_CATCH_DEPTH:
                    problem("v2:catch-stack-unbounded",
                            f"flow `{fc.id}`: failure-handler stack grows beyond {MAX_CATCH_DEPTH} at {p}",
                            {"pos": p})
                else:
                    go(p + 1, "CatchPush", C2=C + (e.label,))
        elif isinstance(e, BeginScope):
            if e.name in S:
                problem("v2:scope-reopened:" + _scope_origin(els, [e.name]),
                        f"flow `{fc.id}`: BeginScope at {p} re-opens scope `{norm_label(e.name)}` that is "
                        f"still open on this path (slide raises ColangRuntimeError)",
                        {"pos": p, "scope": e.name})
            else:
                go(p + 1, "BeginScope", S2=S | {e.name})
        elif isinstance(e, EndScope):
            if e.name not in S:
                problem("v2:scope-closed-not-open:" + _scope_origin(els, [e.name]),
                        f"flow `{fc.id}`: EndScope at {p} closes scope `{norm_label(e.name)}` that is not "
                        f"open on this path", {"pos": p, "scope": e.name})
            else:
                go(p + 1, "EndScope", S2=S - {e.name})
        else:
            # unknown / ignored element: slide just steps over it
            go(p + 1, "ignored:" + kind_of(e))
    return cfg


def _scope_origin(els, scopes):
    """which construct opened the scope: `when` (BeginScope directly followed by a ForkHead)
    or an `await` or-group (followed by CatchPatternFailure)"""
    out = set()
    for s in scopes:
        o = "unknown"
        for i, e in enumerate(els):
            if isinstance(e, BeginScope) and e.name == s and i + 1 < len(els):
                nx = els[i + 1]
                o = "when" if isinstance(nx, ForkHead) else (
                    "await-group" if isinstance(nx, CatchPatternFailure) else "unknown")
                break
        out.add(o)
    return "+".join(sorted(out))


def describe(fc, marks=()):
    """printable listing of a compiled flow"""
    lines = []
    for i, e in enumerate(fc.elements):
        k = kind_of(e)
        extra = ""
        if isinstance(e, (Goto,)):
            extra = f" -> {norm_label(e.label)} if {e.expression}"
        elif isinstance(e, ForkHead):
            extra = " -> " + ", ".join(norm_label(x) for x in e.labels)
        elif isinstance(e, (CatchPatternFailure, Break, Continue)):
            extra = f" {norm_label(e.label)}"
        elif isinstance(e, (Label, BeginScope, EndScope)):
            extra = f" {norm_label(e.name)}"
        elif isinstance(e, SpecOp) and isinstance(e.spec, Spec):
            mem = ("." + e.spec.members[0]["name"]) if e.spec.members else ""
            extra = f" {e.spec.name or '$' + str(e.spec.var_name)}{mem}"
        lines.append(f"{'>>' if i in marks else '  '}{i:3d} {k}{extra}")
    return "\n".join(lines)


# ============================================================================ Colang 1.0
# fields read by v1_0/runtime/sliding.py::slide per element type
#   check : _next (default 1)            if   : +1 | _next_else
#   jump  : _next (relative, or absolute when _absolute; "-1" absolute == `return`)
#   while : _next (default 1) | _next_on_break
#   continue: _next_on_continue (default 1)     break: _next_on_break (default 1)
#   set   : _next (default 1)            stop : -
# fields read by v1_0/runtime/flows.py::compute_next_state / _call_subflow
#   branch: branch_heads (element index head+bh, new head head+bh+1);   anything else: head+1
V1_SLIDING = ("check", "if", "jump", "while", "continue", "stop", "break", "set")
V1_NESTING_KEYS = ("then", "else", "do", "elements", "branches")
V1_UNRESOLVED = ("goto", "label", "checkpoint")


def v1_runtime_elements(elements):
    """`RuntimeV1_0._load_flow_config` drops a leading meta element"""
    if elements and elements[0].get("_type") == "meta":
        return elements[1:]
    return elements


def v1_successors(el, i):
    """[(field, target)] : every head value the runtime can compute from element i."""
    t = el["_type"]
    out = []
    if t == "check":
        out.append(("_next", i + int(el.get("_next", 1))))
    elif t == "if":
        out.append(("+1", i + 1))
        out.append(("_next_else", i + int(el["_next_else"])))
    elif t == "jump":
        if el.get("_absolute"):
            out.append(("_next(abs)", int(el["_next"])))
        else:
            out.append(("_next", i + int(el["_next"])))
    elif t == "while":
        out.append(("_next", i + int(el.get("_next", 1))))
        out.append(("_next_on_break", i + int(el["_next_on_break"])))
    elif t == "continue":
        out.append(("_next_on_continue", i + int(el.get("_next_on_continue", 1))))
    elif t == "break":
        out.append(("_next_on_break", i + int(el.get("_next_on_break", 1))))
    elif t == "set":
        out.append(("_next", i + int(el.get("_next", 1))))
    elif t == "stop":
        pass
    elif t == "branch":
        for bh in el["branch_heads"]:
            out.append(("branch_heads", i + int(bh)))
            out.append(("branch_heads+1", i + int(bh) + 1))
    else:
        out.append(("+1", i + 1))
    return out


def is_v1_declaration(el):
    """a `meta` element as the parser emits it for `meta ...` / `priority N` / the header modifiers: the carrier of the
    flow-level declarations.  (`event meta` would be the event pattern {"_type": "meta"} without the dict.)"""
    return el.get("_type") == "meta" and isinstance(el.get("meta"), dict)


def v1_step_problems(flow_id, els):
    """`els` is a flow as the runtime holds it (FlowConfig.elements).  Every element has to be a step of the
    interpreter: something `slide` has a rule for (V1_SLIDING), a `branch`, a subflow call (`flow`), an action
    (`run_action`) or an event pattern (any other type: `_is_match` compares it with events of that type).  A
    declaration element is none of these: it belongs to the FlowConfig, the loader's job is to take it out of the
    sequence; left inside, `slide` stops on it, no event of the language matches it and it is not actionable."""
    heads = {}
    for i, el in enumerate(els):
        if el.get("_type") == "branch":
            for bh in el.get("branch_heads", []):
                try:
                    heads.setdefault(i + int(bh), i)
                except (TypeError, ValueError):
                    pass
    probs = []
    for i, el in enumerate(els):
        if is_v1_declaration(el):
            where = (f"; it is the head of a branch of the `branch` element at {heads[i]} (that branch can never match)"
                     if i in heads else "")
            probs.append(Problem(
                "v1:non-primitive-left:meta",
                f"v1 flow `{flow_id}`: element {i} of the loaded flow ({len(els)} elements) is the declaration "
                f"{_short(el)} - not a step: a head that arrives there stays for ever, the declaration is not "
                f"applied to the flow{where}",
                {"pos": i, "element": _short(el), "branch_head_of": heads.get(i)}))
    return probs


def v1_check(flow_id, elements, raw=False, steps=False):
    """returns (problems, n_states, n_edges, type_counts).
    raw: `elements` is the list the runtime holds (no model of the loader applied);
    steps: also demand that every element is a step of the interpreter (v1_step_problems)"""
    els = elements if raw else v1_runtime_elements(elements)
    n = len(els)
    probs = v1_step_problems(flow_id, els) if steps else []
    edges = 0
    types = {}
    for i, el in enumerate(els):
        t = el.get("_type")
        types[t] = types.get(t, 0) + 1
        nested = [k for k in V1_NESTING_KEYS
                  if isinstance(el.get(k), list) and any(isinstance(x, (dict, list)) for x in el[k])]
        if nested or t in V1_UNRESOLVED:
            probs.append(Problem(
                f"v1:composite-left:{t}",
                f"v1 flow `{flow_id}`: element {i} of type `{t}` is not resolved "
                f"(nested keys {nested})", {"pos": i, "element": _short(el)}))
            continue
        try:
            succ = v1_successors(el, i)
        except (KeyError, ValueError, TypeError) as ex:
            probs.append(Problem(
                f"v1:offset-field-missing:{t}",
                f"v1 flow `{flow_id}`: element {i} `{t}` lacks an offset field the runtime reads: {ex!r}",
                {"pos": i, "element": _short(el)}))
            continue
        for field, tgt in succ:
            edges += 1
            if field == "_next(abs)" and tgt == -1:
                continue  # `return`: slide treats head < 0 as "flow finished"
            hi = n - 1 if field == "branch_heads" else n
            if not (0 <= tgt <= hi):
                probs.append(Problem(
                    f"v1:offset-out-of-range:{t}:{field}",
                    f"v1 flow `{flow_id}`: element {i} `{t}` field {field} leads to {tgt}, "
                    f"outside [0,{hi}] (flow has {n} elements)",
                    {"pos": i, "target": tgt, "len": n, "element": _short(el)}))
    return probs, n, edges, types


def _short(el):
    return {k: v for k, v in el.items() if k != "_source_mapping"}
