"""C12 - generators of the round-6 families.

(1) Colang 2.x: blocks that hold statements WITHOUT EFFECT.  The control grammar of c12_gen with a second leaf
    `nop`, a line that compiles to nothing the flow does: a comment line (the parser turns a comment-only line of a
    block into an empty statement), or `pass`.  Every block of the grammar up to a node bound that contains at least
    one such leaf: bodies that consist of nothing else (then / else / while / when case / when else / the flow body
    itself), and bodies where it precedes, follows or separates real statements and terminators.  Three spellings
    (`NOP_PHASES`): all comments, all `pass`, alternating by occurrence.

(2) Colang 1.0: COMBINED configurations.  `RailsConfig.__add__` (what the server builds for a request with several
    `config_ids`) joins the flow lists of two configurations after both were compiled: the flows of the combined
    configuration are flows "the loader accepts" like any other.  Two families of pairs of configurations that
    define a flow with the SAME id:
      pairs : all ordered pairs of programs of the 1.0 control grammar up to a node bound,
      edits : every program up to a (larger) node bound with every copy of it that lacks one line (an override
              written by copying the base file), in both orders.
"""
from __future__ import annotations

import functools

from vf.props import c12_gen as gen

# ---------------------------------------------------------------- (1) 2.x statements without effect
NOP_BLOCKS = gen._make2(
    leaves=("match", "nop"), terms=("return", "abort"), loopterms=("break", "continue"),
    when_forms=((1, False), (1, True), (2, False), (2, True)),
)
NOP_PHASES = ("comment", "pass", "alternating")


def has_nop(block):
    for s in block:
        if s[0] == "nop":
            return True
        if s[0] == "while" and has_nop(s[1]):
            return True
        if s[0] == "if" and any(has_nop(b) for b in s[1]):
            return True
        if s[0] == "when" and any(has_nop(b) for b in s[2]):
            return True
    return False


def only_nops(block):
    return all(s[0] == "nop" for s in block)


def n_nop_only_bodies(block, top=True):
    """number of blocks (the flow body included) that consist of statements without effect only"""
    n = 1 if only_nops(block) else 0
    for s in block:
        if s[0] == "while":
            n += n_nop_only_bodies(s[1], False)
        elif s[0] == "if":
            n += sum(n_nop_only_bodies(b, False) for b in s[1])
        elif s[0] == "when":
            n += sum(n_nop_only_bodies(b, False) for b in s[2])
    return n


@functools.lru_cache(None)
def nop_structures(n):
    return tuple(b for b in NOP_BLOCKS(n, False) if has_nop(b))


def _render_nop_block(block, ind, c, out, phase):
    pad = "  " * ind
    for s in block:
        k = s[0]
        if k == "nop":
            comment = phase == 0 or (phase == 2 and c.nop % 2 == 0)
            out.append(f"{pad}# note {c.nop}" if comment else f"{pad}pass")
            c.nop += 1
        elif k == "while":
            out.append(f"{pad}while $c")
            _render_nop_block(s[1], ind + 1, c, out, phase)
        elif k == "if":
            out.append(f"{pad}if $c")
            _render_nop_block(s[1][0], ind + 1, c, out, phase)
            if len(s[1]) > 1:
                out.append(pad + gen._else_kw(s[1][1]))
                _render_nop_block(s[1][1], ind + 1, c, out, phase)
        elif k == "when":
            _, ncase, bodies, haselse = s
            for i in range(ncase):
                spec = gen.WHEN_SPECS_V2[c.when % 3].format(k=c.ev)
                if "E" in spec:
                    c.ev += 1
                c.when += 1
                out.append(f"{pad}{'when' if i == 0 else 'or when'} {spec}")
                _render_nop_block(bodies[i], ind + 1, c, out, phase)
            if haselse:
                out.append(pad + gen._else_kw(bodies[-1]))
                _render_nop_block(bodies[-1], ind + 1, c, out, phase)
        else:
            gen.render_v2_block((s,), ind, c, out)


def render_nop(block, phase):
    c = gen._Ctr()
    c.nop = 0
    out = ["flow main"]
    _render_nop_block(block, 1, c, out, phase)
    return gen.V2_HELPERS + "\n".join(out) + "\n"


# ---------------------------------------------------------------- (2) 1.0 combined configurations
COMB_YAML = "models: []\n"
COMB_FILE = "flows.co"


@functools.lru_cache(None)
def comb_programs(nmax):
    """[(n, index in V1_BLOCKS(n), source)] for all programs of the 1.0 control grammar with <= nmax nodes
    (all define the flow `t`)"""
    out = []
    for n in range(1, nmax + 1):
        for i, b in enumerate(gen.V1_BLOCKS(n, False)):
            out.append((n, i, gen.render_v1(b)))
    return tuple(out)


def line_deletions(source):
    """[(line number (1-based), source without that line)] - every line but the flow header"""
    lines = source.split("\n")
    if lines and lines[-1] == "":
        lines = lines[:-1]
    out = []
    for k in range(1, len(lines)):
        out.append((k + 1, "\n".join(lines[:k] + lines[k + 1:]) + "\n"))
    return out
