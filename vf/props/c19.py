"""C19 - embedding search returns each query's own embedding under caching and batching.

Engine E2 (vf/engines/aio.py): exhaustive enumeration of schedules of the REAL
`BasicEmbeddingsIndex` (`_get_embeddings` + `cache_embeddings`, `_batch_get_embeddings` / `_run_batch`,
`search`) on a virtual asyncio loop; stateless depth-first search with prefix replay on fresh objects.

  choices      ("start", r)        request r arrives: the harness starts its coroutine
                                   B: idx._batch_get_embeddings(text)   G: idx._get_embeddings([texts])
                                   S: idx.search(text, max_results=1)   (batched iff use_batching)
               ("timer", n)        the n-th timer of the execution fires = a batch's max_batch_hold ran out
                                   (all hold timers have the same delay: they fire in creation order)
               ("ext", ("model", j))  the j-th call of the embedding model answers.  The model is a fake
                                   provider registered under its own engine name; encode_async(texts) snapshots
                                   its input, awaits an explorer-owned future, returns [model(t) for t in texts],
                                   model(t) = 6 floats derived from sha256(t)
               ("tick",)           (granularity "iteration" only) run one loop iteration; the other choices stay
                                   enabled, so external events land between any two iterations of the loop
               after every choice the FIFO ready queue is drained (granularity "quiescence"); the ready queue is
               never permuted.  Requests of a second round become enabled when the first round is over (warm
               cache, advanced request ids, used events = non-initial state).  Identical requests of a round
               arrive in index order (symmetry).
  configs      request multisets over a pool (duplicate texts, the empty string, lists with duplicates, the
               empty list) x max_batch_size {1,2,3} x cache {off, in_memory x {md5,hash}, filesystem x {md5,hash}
               [x pre-warmed with one text]} x (search only) use_batching {on,off} x index {prebuilt,
               built through add_items/build}
  oracle       every started request completes (no enabled choice + unfinished request = deadlock; step horizon;
               watchdog for a callback that never yields); B returns exactly model(text); G returns
               [model(t) for t in texts] in input order; S returns the item whose text is the query (its vector
               is the nearest to model(query) only); when all requests are done `_req_queue` and
               `_req_results` are empty.  Cache efficiency and the number of model calls are counted, not demanded.
  families     (vf/props/c19_env.py: the same Env with three more kinds of environment behaviour)
               burst-arrival      all requests of a round are started by ONE choice, before the loop runs again
                                  (asyncio.gather): the way a request finds the batch queue full at quiescence
                                  granularity; two rounds
               second-event-loop  round 2 runs on a fresh virtual loop after the first one was wound up as
                                  asyncio.run does it; same index objects (separate arrivals, bursts, and two
                                  deviation-bounded configurations at loop-iteration granularity).  What a request
                                  of the second loop shows is reported as "second-event-loop:<class>"
               model-call-raises  ("ext", ("model-raises", j)): the j-th model call raises ModelCallFailed instead of
                                  answering; at most one call raises per schedule.  Oracle there: a request that was
                                  under way when the call raised returns model(text) or ends with that error; nobody
                                  waits for ever; a request that arrives later gets model(text) (when the failure
                                  left requests waiting, the next round is released once nothing else can happen);
                                  `_req_queue` / `_req_results` empty when all returned.  Everything seen in such a
                                  schedule is reported as "model-call-raises:<class>".  The property's quantifier
                                  names model latency, not model failure: MODEL_FAILURE_FAMILY switches the family off
               colliding-model-names  two indexes in one process whose embedding models are DIFFERENT but have names
                                  that resemble each other: NAME_PAIRS = pairs of (engine, model name) that collide
                                  under at least one of KEY_DERIVATIONS (last / first path component, directory,
                                  version or revision suffix dropped, case, surrounding space, separator characters,
                                  first / last 60 characters, model name alone with two engines, engine and model
                                  joined by '-' or '/').  One request on each index, same round (either index may
                                  load its model first) or one after the other, cache off / on.  The fake provider
                                  derives its vectors from the full (engine, model name); the process-wide table of
                                  loaded models starts empty in every execution.  Oracle: each index returns the
                                  vectors of ITS model.  Reported as "colliding-model-names:<how the names
                                  resemble>:<class>"
               loop-abandoned     second-event-loop configurations with one more choice ("abandon",), enabled while
                                  a request of round 1 is under way: the first loop is given up at that moment
                                  (asyncio.run(asyncio.wait_for(work, timeout)) when the timeout fires; Ctrl-C in a
                                  synchronous call): everything on it is cancelled, it is wound up and closed.  The
                                  requests that went with it owe nothing; every request of round 2 (fresh loop, same
                                  index) must complete with model(text).  `_req_queue` / `_req_results` are not
                                  demanded empty there.  Reported as "loop-abandoned:<moment>:<class>", class
                                  "later-request-not-served" for a request that raises or never completes
               request-cancelled  one more choice ("cancel", k), enabled while request k is under way (and something
                                  else can still happen): the caller of request k gives up (asyncio.wait_for on a
                                  timeout, a client that went away): its task is cancelled, at most one per schedule.
                                  The cancelled request owes nothing (a vector it returns all the same must be
                                  right); every other request - of the same batch, of other batches, of a later
                                  round - must complete with model(text).  `_req_queue` / `_req_results` are not
                                  demanded empty there (the result computed for the cancelled request stays behind:
                                  counted).  1-3 requests + a later one, separate arrivals and bursts, cache off / on;
                                  one 2-request configuration at loop-iteration granularity (deviation bounded), the
                                  only place where a request waits for room in the queue when it is cancelled.
                                  Reported as "request-cancelled:<what the cancelled request waited for>:<class>",
                                  class "other-request-not-served" for a request that raises or never completes
               colliding-texts    the requests ask for two DIFFERENT texts that resemble each other: TEXT_PAIRS = pairs
                                  that collide under at least one of TEXT_KEY_DERIVATIONS (adler32, crc32, polynomial
                                  string hashes, byte sum / xor, anagrams, length, case, whitespace, punctuation,
                                  unicode normalisation, non-ascii dropped, first / last 60 characters, prefix);
                                  checksum collisions are checked to hold behind any common prefix.  Cache off and
                                  every store x key generator; both texts in one list, one after the other, in one
                                  batch / two batches in every order, a search on an index built from them through
                                  add_items/build.  Oracle as everywhere: each text gets ITS model vector.  Reported
                                  as "colliding-texts:<how the texts resemble>:<key generator>-keys:<class>"
  binding      during every prefix replay the enabled list at every depth must equal the recorded one; 1-in-N
               schedules (by hash of the trace) are re-run twice from scratch and must give identical
               observations (traces_validated_against_impl); a divergence is a harness error.
"""
from __future__ import annotations

import gc
import hashlib
import itertools
import os
import re
import shutil
import tempfile
import time
import unicodedata
import zlib

from vf.props.c19_env import C19Env, ModelCallFailed, is_injected

PROP = "C19"
ENGINE = "verif_c19"
ITEM_TEXTS = ("a", "b", "", "c")     # items of the search index; every requested text is one of them
HOLD = 0.01
KIND = {"B": "batch", "G": "list", "S": "search"}
MODELS = ("verif", "verif6")         # embedding_model names; index i of a configuration uses MODELS[i]
# more engines of the same fake provider (family colliding-model-names): an unrelated one, and two whose names
# continue the first engine's name with a separator a key derivation may use
ENGINE_TWO, ENGINE_DASH, ENGINE_SLASH = ENGINE + "_two", ENGINE + "-acme", ENGINE + "/acme"
ENGINES = (ENGINE, ENGINE_TWO, ENGINE_DASH, ENGINE_SLASH)


def mid(engine, name):
    """identity of the model `name` of engine `engine` (what the fake provider derives its vectors from)"""
    return name if engine == ENGINE else f"{engine}::{name}"


def models_of(cfg):
    """[(engine, model name)] of the indexes of a configuration"""
    if cfg.get("models"):
        return [tuple(m) for m in cfg["models"]]
    return [(ENGINE, m) for m in MODELS]


def mids_of(cfg):
    return [mid(e, n) for e, n in models_of(cfg)]


def vec(text, model="verif"):
    """the fake embedding model: what model `model` (a model identity, see mid()) gives for `text`"""
    seed = "C19|" + text if model == "verif" else f"C19|{model}|{text}"
    d = hashlib.sha256(seed.encode("utf-8")).digest()
    return [(b - 127.5) / 127.5 for b in d[:6]]


def norm_reqs(reqs):
    """request = (kind, payload, round, index number); the index number may be left out (0)"""
    out = []
    for r in reqs:
        kind, payload, rnd = r[0], r[1], r[2]
        which = r[3] if len(r) > 3 else 0
        out.append((kind, tuple(payload) if isinstance(payload, (list, tuple)) else payload, rnd, which))
    return out


# ------------------------------------------------------------------ library + fake provider
_LIB = None
_CUR = None      # the world of the running execution (the provider instance is a process-wide singleton)


_GUARD = None


def lib():
    global _LIB
    if _LIB is not None:
        return _LIB
    from annoy import AnnoyIndex

    from nemoguardrails.embeddings import basic, cache
    from nemoguardrails.embeddings.index import IndexItem
    from nemoguardrails.embeddings.providers import register_embedding_provider
    from nemoguardrails.embeddings.providers.base import EmbeddingModel
    from nemoguardrails.rails.llm.config import EmbeddingsCacheConfig

    class VerifEmbeddingModel(EmbeddingModel):
        engine_name = ENGINE

        def __init__(self, embedding_model=None, **_kw):
            self.model = mid(type(self).engine_name, embedding_model)

        async def encode_async(self, documents):
            w = _CUR
            docs = list(documents)               # what a real model is sent at call time
            m = self.model
            if w is None or w.auto:
                return [vec(t, m) for t in docs]
            j = len(w.calls)
            w.calls.append(docs)
            w.callers.add(m)
            fut = w.env.external(("model", j))
            if w.cfg.get("fail") and w.failed is None:
                # the same call has a second possible answer: it raises (at most one such answer per schedule)
                w.env._externals.append([("model-raises", j), fut, None,
                                         ModelCallFailed(f"injected failure of model call {j}")])
            await fut
            return [vec(t, m) for t in docs]     # fresh list objects every time

        def encode(self, documents):
            return [vec(t, self.model) for t in documents]

    register_embedding_provider(VerifEmbeddingModel)
    for e in ENGINES[1:]:
        register_embedding_provider(type("VerifEmbeddingModel_" + re.sub(r"\W", "_", e), (VerifEmbeddingModel,),
                                         {"engine_name": e}))
    pre = {}
    for m in MODELS:
        pre[m] = AnnoyIndex(6, "angular")
        for i, t in enumerate(ITEM_TEXTS):
            pre[m].add_item(i, vec(t, m))
        pre[m].build(10)
        for i, t in enumerate(ITEM_TEXTS):      # the search oracle is sound: own vector -> own item, alone
            if pre[m].get_nns_by_vector(vec(t, m), 1) != [i]:
                raise RuntimeError("HARNESS: the model vectors do not separate the index items")
            for m2 in MODELS:                   # and a vector of the other model is told apart by search
                if m2 != m and pre[m].get_nns_by_vector(vec(t, m2), 1) == [i]:
                    raise RuntimeError("HARNESS: the two models are not told apart by search")
    for _label, m1, m2 in NAME_PAIRS:       # the indexes of the models of the family colliding-model-names
        for e, n in (m1, m2):
            m = mid(e, n)
            if m not in pre:
                pre[m] = AnnoyIndex(6, "angular")
                for i, t in enumerate(ITEM_TEXTS):
                    pre[m].add_item(i, vec(t, m))
                pre[m].build(10)
                for i, t in enumerate(ITEM_TEXTS):
                    if pre[m].get_nns_by_vector(vec(t, m), 1) != [i]:
                        raise RuntimeError("HARNESS: the model vectors do not separate the index items")
    from nemoguardrails.embeddings import providers
    from vf.seams import GlobalsGuard
    global _GUARD
    # providers: the process-wide table of loaded embedding models starts empty in every execution (which index
    # loads its model first is part of the schedule)
    _GUARD = GlobalsGuard([basic, cache, providers])
    _LIB = {"Index": basic.BasicEmbeddingsIndex, "Item": IndexItem, "Cache": cache.EmbeddingsCache,
            "CacheConfig": EmbeddingsCacheConfig, "prebuilt": pre}
    return _LIB


class World:
    __slots__ = ("env", "cfg", "idx", "indexes", "calls", "auto", "max_queue", "max_results_table", "max_inflight",
                 "full_wait", "failed", "inflight_at_failure", "full_wait_loops", "callers")

    def __init__(self, env, cfg):
        self.env = env
        self.cfg = cfg
        self.idx = None         # the first index
        self.indexes = []
        self.calls = []
        self.auto = False
        self.max_queue = 0
        self.max_results_table = 0
        self.max_inflight = 0
        self.full_wait = False
        self.failed = None                  # number of the model call that raised (fail configurations)
        self.inflight_at_failure = set()    # requests started and not returned when it raised
        self.full_wait_loops = set()        # numbers of the loops in which a request found the queue full
        self.callers = set()                # identities of the model objects that were called


def _clear_dir(d):
    os.makedirs(d, exist_ok=True)
    with os.scandir(d) as it:
        for e in it:
            os.unlink(e.path)


def maker(cfg, scratch):
    """-> make(env) building one fresh world for configuration cfg"""
    L = lib()
    reqs = norm_reqs(cfg["reqs"])
    n_idx = 1 + max(r[3] for r in reqs)
    models = models_of(cfg)
    mids = mids_of(cfg)
    cache = cfg.get("cache")
    items = [L["Item"](text=t, meta={"i": i}) for i, t in enumerate(cfg.get("items") or ITEM_TEXTS)]

    def make(env):
        global _CUR
        w = World(env, cfg)
        _CUR = w
        special = bool(cfg.get("burst") or cfg.get("fail") or cfg.get("loops", 1) > 1 or cfg.get("cancel"))
        if special:
            C19Env.adopt(env, w, [k for k, r in enumerate(reqs) if r[2] == 1],
                         second_loop=cfg.get("loops", 1) > 1, fail=cfg.get("fail"), abandon=cfg.get("abandon"),
                         cancel=cfg.get("cancel"))
            env.monitor = lambda: on_step(env, w)
        _GUARD.restore()    # no library-global container carries anything over from the previous execution
        if cache:
            store_config = {}
            if cache[0] == "filesystem":
                _clear_dir(scratch)
                store_config = {"cache_dir": scratch}
            cc = L["CacheConfig"](enabled=True, store=cache[0], key_generator=cache[1], store_config=store_config)
        else:
            cc = L["CacheConfig"](enabled=False)
        api = cfg.get("build") == "api"
        # several indexes = several embedding models configured with the same cache settings (as the core and
        # the knowledge-base search providers of one app are, or the same app before / after a model change)
        for i in range(n_idx):
            w.indexes.append(L["Index"](
                embedding_model=models[i][1], embedding_engine=models[i][0],
                index=None if api else L["prebuilt"][mids[i]],
                cache_config=cc, use_batching=bool(cfg.get("use_batching", True)),
                max_batch_size=cfg["mbs"], max_batch_hold=HOLD,
            ))
        w.idx = w.indexes[0]
        w.auto = True
        if cache and cfg.get("prewarm"):
            # an earlier run of the same index left these texts in the store
            env.run_now(w.idx._get_embeddings(list(cfg["prewarm"])))
        for idx in w.indexes:
            env.run_now(idx.add_items(list(items)))     # prebuilt: only the item table; api: embeds all items
            if api:
                env.run_now(idx.build())
        w.auto = False
        first = [k for k, r in enumerate(reqs) if r[2] == 1]
        for k, (kind, payload, rnd, which) in enumerate(reqs):
            idx = w.indexes[which]
            if kind == "B":
                f = (lambda p=payload, idx=idx: idx._batch_get_embeddings(p))
            elif kind == "G":
                f = (lambda p=payload, idx=idx: idx._get_embeddings(list(p)))
            else:
                f = (lambda p=payload, idx=idx: idx.search(p, max_results=1))
            twins = [j for j in range(k) if reqs[j] == reqs[k]]

            def gate(twins=twins, rnd=rnd, arr=env._arrivals, res=env.results):
                for j in twins:
                    if not arr[j][3]:
                        return False
                if rnd == 2 and not getattr(env, "released", False):
                    for j in first:
                        if j not in res:
                            return False
                return True

            env.arrival(k, f, gate)
        if cfg.get("burst"):
            for rnd in (1, 2):
                env.burst([k for k, r in enumerate(reqs) if r[2] == rnd])
        return w

    return make


def on_step(env, w):
    for idx in w.indexes:
        n = len(idx._req_queue)
        if n > w.max_queue:
            w.max_queue = n
        n = len(idx._req_results)
        if n > w.max_results_table:
            w.max_results_table = n
        if idx._current_batch_submitted._waiters:
            w.full_wait = True
            w.full_wait_loops.add(getattr(env, "old_loops", 0))
    n = 0
    for x in env._externals:
        if not x[1].done():
            n += 1
    if n > w.max_inflight:
        w.max_inflight = n


# ------------------------------------------------------------------ oracle
def _is_vec(v):
    return isinstance(v, (list, tuple)) and all(isinstance(x, float) for x in v)


def _same(v, ref):
    return _is_vec(v) and list(v) == ref


def _whose(v, others, model="verif", mids=MODELS, texts=ITEM_TEXTS):
    """name the text whose model vector v is"""
    if v is None:
        return "none"
    if not _is_vec(v):
        return "not-a-vector"
    for t in texts:
        if list(v) == vec(t, model):
            return "vector-of-another-request" if t in others else "vector-of-an-unrequested-text"
    for m in mids:
        if m != model and any(list(v) == vec(t, m) for t in texts):
            return "vector-of-another-model"
    return "unknown-vector"


def vname(v, mids=MODELS, texts=ITEM_TEXTS):
    """a vector, named when it is the model vector of a known text"""
    if _is_vec(v):
        for m in mids:
            for t in texts:
                if list(v) == vec(t, m):
                    return f"model({t!r})" if m == MODELS[0] else f"{m}({t!r})"
    if isinstance(v, (list, tuple)) and v and all(isinstance(x, (list, tuple)) or x is None for x in v):
        return "[" + ", ".join(vname(x, mids, texts) for x in v) + "]"
    return repr(v)


def texts_of(cfg):
    """the texts a vector is named after: the index items plus (family colliding-texts) the texts of the pair"""
    extra = [t for t in (cfg.get("texts") or ()) if t not in ITEM_TEXTS]
    extra += [t for t in (cfg.get("items") or ()) if t not in ITEM_TEXTS and t not in extra]
    return tuple(ITEM_TEXTS) + tuple(extra)


def req_name(k, kind, payload, which=0, models=None):
    if models:
        on = f" on index {which} (embedding_engine {models[which][0]!r}, embedding_model {models[which][1]!r})"
    else:
        on = f" on index {which} (embedding_model {MODELS[which]!r})" if which else ""
    if kind == "B":
        return f"request {k} _batch_get_embeddings({payload!r}){on}"
    if kind == "G":
        return f"request {k} _get_embeddings({list(payload)!r}){on}"
    return f"request {k} search({payload!r}, max_results=1){on}"


_ADDR = re.compile(r" at 0x[0-9a-fA-F]+")


def exc_text(e):
    """the message of an exception without object addresses (they differ from run to run)"""
    return _ADDR.sub("", f"{type(e).__name__}: {e}")


def render(kind, res):
    """observed result -> plain data"""
    if res is None:
        return None
    if res[0] == "exc":
        return {"raised": exc_text(res[1])}
    if res[0] != "ok":
        return {"ended": res[0]}
    v = res[1]
    try:
        if kind == "S":
            return {"items": [getattr(i, "text", repr(i)) for i in v]}
        if kind == "B":
            return {"vector": list(v)}
        return {"vectors": [None if x is None else list(x) for x in v]}
    except TypeError:
        return {"value": repr(v)}


def expected(kind, payload, which=0, mids=MODELS):
    m = mids[which]
    if kind == "S":
        return {"items": [payload]}
    if kind == "B":
        return {"vector": vec(payload, m)}
    return {"vectors": [vec(t, m) for t in payload]}


def _raise_site(e):
    tb = e.__traceback__
    site = "?"
    while tb is not None:
        fn = tb.tb_frame.f_code.co_filename
        if "nemoguardrails" in fn and "/vf/" not in fn:
            site = tb.tb_frame.f_code.co_name
        tb = tb.tb_next
    return site


def _blocked_at(w, names, fut, which=0):
    idx = w.indexes[which]
    inner = [n.split(".")[-1] for n in names if "Env._wrap" not in n]
    fn = next((n for n in reversed(inner) if n not in ("wait", "sleep")), inner[-1] if inner else "?")
    what = "future"
    if fut is not None:
        for attr in ("_current_batch_submitted", "_current_batch_finished_event", "_current_batch_full_event"):
            ev = getattr(idx, attr, None)
            if ev is not None and fut in getattr(ev, "_waiters", ()):
                what = attr.strip("_")
                break
        else:
            if inner and inner[-1] == "wait":
                what = "an-event-the-index-no-longer-holds"
    return f"{fn}-awaits-{what}"


def judge(cfg, env, w, info):
    """-> [(signature, what)] for one finished execution"""
    out = []
    reqs = norm_reqs(cfg["reqs"])
    outcome = info["outcome"]
    bg = env.background_failures()
    bgs = ""
    if bg:
        bgs = ":after-" + "+".join(sorted({f"{n.split('.')[-1]}-raised-{type(e).__name__}" for n, e in bg}))
    bgtxt = "".join(f"; background task {n} died with {exc_text(e)}" for n, e in bg)
    started = env.started() if isinstance(env, C19Env) else {lab[1] for lab in info["trace"] if lab[0] == "start"}
    failed = w.failed is not None       # a model call raised in this schedule (fail configurations only)
    loop_of = getattr(env, "loop_of", {})
    mids = mids_of(cfg)
    models = models_of(cfg) if cfg.get("models") else None
    abandoned = getattr(env, "abandoned", False)    # the first event loop was given up with requests under way
    cut = getattr(env, "cut", ())                   # ... these requests went with it
    gone = getattr(env, "cancelled_req", None)      # the request whose caller gave up (family request-cancelled)
    known = texts_of(cfg)
    all_texts = []
    for kind, payload, _r, _w in reqs:
        all_texts.extend(payload if kind == "G" else [payload])
    if outcome in ("horizon", "spin"):
        out.append((f"non-termination:{outcome}", f"the execution was stopped: {env.horizon}{bgtxt}"))
    marks = []      # (first position in out, request) of every request
    for k, (kind, payload, _rnd, which) in enumerate(reqs):
        marks.append((len(out), k))
        res = env.results.get(k)
        name = req_name(k, kind, payload, which, models)
        if loop_of.get(k, 0) >= 1:
            name += " (on the second event loop)"
        model = mids[which]
        if k == gone and (res is None or res[0] != "ok"):
            # its caller gave up: it owes nothing (a vector it returns all the same is checked below)
            if res is None and outcome == "stuck":
                names, _fut = env.where_blocked(k)
                out.append(("cancelled-request-never-returns",
                            f"{name} was cancelled and still waits ({' > '.join(names[1:])})"))
            continue
        if res is None:
            if k in started and outcome == "stuck":
                names, fut = env.where_blocked(k)
                at = _blocked_at(w, names, fut, which)
                if failed:
                    # one class whatever the kind of request: the blocked function is part of the name
                    out.append((f"no-completion:{at}{bgs}",
                                f"{name} never completes after model call {w.failed} (texts {w.calls[w.failed]!r}) "
                                f"raised: no timer, model call or arrival is pending and it is still waiting "
                                f"({' > '.join(names[1:])}){bgtxt}"))
                else:
                    out.append((f"no-completion:{KIND[kind]}:{at}{bgs}",
                                f"{name} never completes: no timer, model call or arrival is pending and it is "
                                f"still waiting ({' > '.join(names[1:])}){bgtxt}"))
            continue
        if res[0] == "exc":
            e = res[1]
            if failed and is_injected(e):
                # the failure of the model reaches the caller: that is a completion.  Only a request that was
                # under way when the call raised may see it
                if k not in w.inflight_at_failure:
                    out.append((f"stale-error:{KIND[kind]}",
                                f"{name} arrived after model call {w.failed} had raised and was given that error"))
                continue
            if loop_of.get(k, 0) >= 1:
                out.append((f"exception:{type(e).__name__}@{_raise_site(e)}", f"{name} raised {exc_text(e)}"))
            else:
                out.append((f"exception:{KIND[kind]}:{type(e).__name__}@{_raise_site(e)}",
                            f"{name} raised {exc_text(e)}"))
            continue
        if res[0] != "ok":
            if abandoned and k in cut and res[0] == "cancelled":
                continue        # given up by its caller together with the loop it ran on
            out.append((f"exception:{KIND[kind]}:{res[0]}", f"{name} ended {res[0]}"))
            continue
        v = res[1]
        if kind == "B":
            if not _same(v, vec(payload, model)):
                others = [t for t in all_texts if t != payload]
                how = _whose(v, others, model, mids, known)
                out.append((f"wrong-vector:batch:{how}",
                            f"{name} returned {vname(v, mids, known)}, not {vname(vec(payload, model), mids, known)}"))
        elif kind == "G":
            exp = [vec(t, model) for t in payload]
            if not isinstance(v, (list, tuple)):
                out.append(("wrong-vector:list:not-a-list", f"{name} returned {v!r}"))
            elif len(v) != len(exp):
                out.append(("wrong-vector:list:wrong-length", f"{name} returned {len(v)} vectors for {len(exp)} texts"))
            elif any(not _same(x, e) for x, e in zip(v, exp)):
                if all(_is_vec(x) for x in v) and sorted(map(list, v)) == sorted(exp):
                    how = "permuted"
                else:
                    i = next(i for i, (x, e) in enumerate(zip(v, exp)) if not _same(x, e))
                    how = _whose(v[i], [t for t in all_texts if t != payload[i]], model, mids, known)
                out.append((f"wrong-vector:list:{how}",
                            f"{name} returned {vname(list(v), mids, known)}, expected {vname(exp, mids, known)}"))
        else:
            texts = [getattr(i, "text", None) for i in v] if isinstance(v, (list, tuple)) else None
            if texts != [payload]:
                how = "wrong-count" if texts is None or len(texts) != 1 else "item-of-another-text"
                if how == "item-of-another-text" and len(w.indexes) > 1 and texts[0] in ITEM_TEXTS:
                    # the vector itself is not visible: is the item the one another model's vector would find?
                    found = [ITEM_TEXTS.index(texts[0])]
                    pre = lib()["prebuilt"][model]
                    if any(pre.get_nns_by_vector(vec(payload, m), 1) == found for m in mids if m != model):
                        how = "vector-of-another-model"
                out.append((f"wrong-vector:search:{how}",
                            f"{name} found {texts!r}; the query's own embedding finds exactly [{payload!r}]"))
    n_leftover = len(out)
    if outcome == "done" and not abandoned and gone is None:
        for idx in w.indexes:
            if idx._req_queue:
                out.append(("leftover:_req_queue",
                            f"all requests are done but _req_queue still holds {idx._req_queue!r}"))
            if idx._req_results:
                out.append(("leftover:_req_results", f"all requests are done but _req_results still holds "
                                                     f"results for ids {sorted(idx._req_results)!r}"))
    n_reqs_end = n_leftover
    # one class whatever the kind of request: a vector computed by another embedding model came out of the cache
    if not cfg.get("pair"):
        out = [("wrong-vector:vector-of-another-model-from-shared-cache", what)
               if sig.endswith(":vector-of-another-model") else (sig, what) for sig, what in out]
    # the families with a special environment name what they see after it: everything seen in a schedule in which a
    # model call raised; what a request shows that ran on the second event loop of the execution (and what is left
    # over after that loop)
    if cfg.get("pair"):
        # family colliding-model-names: the class is the pair of names (how they resemble each other) and, for a
        # vector of the other model, whether the index ended up holding the model object of the other name (only
        # read to name the class; the verdict is the vector)
        foreign = any(getattr(getattr(i, "_model", None), "model", mids[n]) != mids[n]
                      for n, i in enumerate(w.indexes))
        via = "index-holds-the-model-object-of-the-other-name" if foreign else "own-model-object"
        out = [(f"colliding-model-names:{cfg['pair']}:" +
                (f"vector-of-another-model:{via}" if sig.endswith(":vector-of-another-model") else sig),
                what + (f"  [models {models_of(cfg)!r}]" if i == 0 else "")) for i, (sig, what) in enumerate(out)]
    elif cfg.get("tpair"):
        # family colliding-texts: the class is how the two texts resemble each other, the key generator of the
        # cache (none: cache off) and what the request shows
        gen = f"{cfg['cache'][1]}-keys" if cfg.get("cache") else "cache-off"
        out = [(f"colliding-texts:{cfg['tpair']}:{gen}:{sig}",
                what + (f"  [texts {list(cfg['texts'])!r}, cache {cfg.get('cache')!r}]" if i == 0 else ""))
               for i, (sig, what) in enumerate(out)]
    elif gone is not None:
        # family request-cancelled: the class is what the cancelled request was waiting for and what ANOTHER request
        # shows: not served (it raises or waits for ever) or the ordinary wrong-vector classes
        gk, gp = reqs[gone][0], reqs[gone][1]
        out = [(f"request-cancelled:{env.cancel_phase}:" +
                ("other-request-not-served" if sig.startswith(("exception:", "no-completion:")) else sig),
                what + f" - after the caller of {req_name(gone, gk, gp, reqs[gone][3], models)} gave up "
                       f"{env.cancel_phase.replace('-', ' ')} (that request was cancelled; requests "
                       f"{sorted(env.inflight_at_cancel)!r} were under way with it)")
               for sig, what in out]
    elif abandoned:
        # family loop-abandoned: the class is the moment at which the first loop was given up and what a later
        # request shows: not served (it raises or waits for ever) or the ordinary wrong-vector classes
        out = [(f"loop-abandoned:{env.abandon_phase}:" +
                ("later-request-not-served" if sig.startswith(("exception:", "no-completion:")) else sig),
                what + f" - after the first event loop was given up {env.abandon_phase.replace('-', ' ')} "
                       f"(requests {sorted(cut)!r} under way) and wound up the way asyncio.run does it")
               for sig, what in out]
    elif failed:
        out = [("model-call-raises:" + sig, what) for sig, what in out]
    elif loop_of:
        owner = {}
        for (pos, k), nxt in zip(marks, [m[0] for m in marks[1:]] + [n_reqs_end]):
            for i in range(pos, nxt):
                owner[i] = k
        out = [("second-event-loop:" + sig, what)
               if (loop_of.get(owner[i], 0) >= 1 if i in owner else (i >= n_reqs_end and getattr(env, "switched", False)))
               else (sig, what) for i, (sig, what) in enumerate(out)]
    if outcome == "stuck" and not out:
        raise RuntimeError(f"HARNESS: execution stuck without an unfinished started request: {info['trace']!r}")
    return out


def observe(env, w):
    reqs = norm_reqs(w.cfg["reqs"])
    return (
        tuple(env.trace),
        repr([render(reqs[k][0], env.results.get(k)) for k in range(len(reqs))]),
        repr(w.calls),
        repr([(sorted(i._req_queue.items()), sorted(i._req_results), i._req_idx) for i in w.indexes]),
        w.env.loop._vseq, w.env.loop.handles_run, w.failed, sorted(w.inflight_at_failure),
        sorted(getattr(env, "loop_of", {}).items()),
    )


def replay_dict(cfg, env, w, info):
    reqs = norm_reqs(cfg["reqs"])
    return {
        "config": public_cfg(cfg),
        "schedule": [list(x) for x in info["trace"]],
        "outcome": info["outcome"],
        "expected": {str(k): expected(kd, p, wh, mids_of(cfg)) for k, (kd, p, _r, wh) in enumerate(reqs)},
        "observed": {str(k): render(reqs[k][0], env.results.get(k)) for k in range(len(reqs))},
        "model_calls": [list(c) for c in w.calls],
    }


def public_cfg(cfg):
    return {k: cfg[k] for k in ("reqs", "mbs", "cache", "prewarm", "use_batching", "build", "granularity",
                                "burst", "loops", "fail", "abandon", "pair", "models", "cancel", "tpair", "texts",
                                "items") if k in cfg}


# ------------------------------------------------------------------ one configuration
ENV_KW = {"timer_policy": "when", "order": ("start", "ext", "timer")}
WATCHDOG_S = 2       # CPU seconds; an execution takes milliseconds: a callback that burns seconds never yields
WATCHDOG_AFTER = 0.25  # once a spinning callback was seen (by any worker: marker file) later ones get this much
_SPUN = False


def explore(task):
    from vf.engines import aio

    cfg = task
    scratch = os.path.join(cfg["scratch"], f"c{cfg['id']}")
    make = maker(cfg, scratch)
    reqs = cfg["reqs"] = norm_reqs(cfg["reqs"])
    n_texts = sum(len(p) if kd == "G" else 1 for kd, p, _r, _w in reqs)
    batched = [k for k, r in enumerate(reqs) if r[0] == "B" or (r[0] == "S" and cfg.get("use_batching", True))]
    counts = {
        "schedules": 0, "schedules_with_shared_batch": 0, "schedules_with_batch_dispatched_full": 0,
        "schedules_with_queue_full_wait": 0, "schedules_with_cache_hit": 0, "schedules_nontrivial": 0,
        "schedules_with_concurrent_model_calls": 0, "violating_schedules": 0, "requests_completed": 0,
        "vectors_checked": 0, "model_calls": 0, "model_texts_not_requested": 0,
        "schedules_with_burst_arrival": 0, "schedules_with_queue_full_wait_at_quiescence_granularity": 0,
        "schedules_with_model_call_raising": 0, "requests_ending_with_the_injected_failure": 0,
        "schedules_with_later_round_released_after_failure": 0, "requests_served_after_a_model_failure": 0,
        "schedules_with_second_event_loop": 0, "schedules_with_queue_full_wait_on_second_event_loop": 0,
        "requests_completed_on_second_event_loop": 0,
        "schedules_with_two_resembling_model_names": 0, "schedules_with_both_models_called": 0,
        "schedules_with_first_loop_abandoned": 0, "schedules_with_loop_abandoned_during_batch_hold_time": 0,
        "schedules_with_loop_abandoned_during_model_call": 0, "requests_given_up_with_their_loop": 0,
        "requests_served_after_an_abandoned_loop": 0,
        "schedules_with_a_request_cancelled": 0, "schedules_with_request_cancelled_during_batch_hold_time": 0,
        "schedules_with_request_cancelled_during_model_call": 0,
        "schedules_with_request_cancelled_while_waiting_for_room_in_the_queue": 0,
        "requests_served_next_to_or_after_a_cancelled_request": 0,
        "schedules_with_result_left_behind_for_a_cancelled_request": 0,
        "schedules_with_two_resembling_texts": 0, "schedules_with_two_resembling_texts_and_cache_on": 0,
        "schedules_with_two_resembling_texts_in_one_model_call": 0,
    }
    family = ("colliding-texts" if cfg.get("tpair") else "request-cancelled" if cfg.get("cancel") else
              "colliding-model-names" if cfg.get("pair") else "loop-abandoned" if cfg.get("abandon")
              else "model-call-raises" if cfg.get("fail") else "second-event-loop" if cfg.get("loops", 1) > 1
              else "burst-arrival" if cfg.get("burst") else "plain")
    quiesc = cfg.get("granularity", "quiescence") == "quiescence"
    viol = {}
    outcomes = set()
    samples = []
    by_dev = {}

    def on_exec(env, w, info):
        global _SPUN
        if info["outcome"] == "spin" and not _SPUN:
            _SPUN = True
            try:
                open(os.path.join(cfg["scratch"], "spin-seen"), "w").close()
            except OSError:
                pass
        if cfg.get("count_dev") is not None and info["deviations"] != cfg["count_dev"]:
            return          # already counted by the run with the smaller deviation bound
        counts["schedules"] += 1
        by_dev[info["deviations"]] = by_dev.get(info["deviations"], 0) + 1
        trace = info["trace"]
        fired = sum(1 for lab in trace if lab[0] == "timer")
        cancelled = env.loop._vseq - fired - len(env.loop.pending_timers())
        shared = w.max_queue >= 2
        full = cancelled > 0 and bool(batched) and cfg["mbs"] > 1
        got = sum(len(c) for c in w.calls)
        done_texts = sum((len(r[1]) if r[0] == "G" else 1) for k, r in enumerate(reqs)
                         if k in env.results and env.results[k][0] == "ok")
        counts["schedules_with_burst_arrival"] += bool(cfg.get("burst"))
        counts["schedules_with_queue_full_wait_at_quiescence_granularity"] += bool(w.full_wait and quiesc)
        if w.failed is not None:
            counts["schedules_with_model_call_raising"] += 1
            counts["requests_ending_with_the_injected_failure"] += sum(
                1 for r in env.results.values() if r[0] == "exc" and is_injected(r[1]))
            counts["schedules_with_later_round_released_after_failure"] += bool(env.released)
            counts["requests_served_after_a_model_failure"] += sum(
                1 for k, r in env.results.items() if r[0] == "ok" and k not in w.inflight_at_failure)
        if getattr(env, "switched", False):
            counts["schedules_with_second_event_loop"] += 1
            counts["schedules_with_queue_full_wait_on_second_event_loop"] += 1 in w.full_wait_loops
            counts["requests_completed_on_second_event_loop"] += sum(
                1 for k, r in env.results.items() if r[0] == "ok" and env.loop_of.get(k, 0) >= 1)
        if cfg.get("pair"):
            counts["schedules_with_two_resembling_model_names"] += 1
            counts["schedules_with_both_models_called"] += len(w.callers) >= 2
        if getattr(env, "abandoned", False):
            counts["schedules_with_first_loop_abandoned"] += 1
            counts["schedules_with_loop_abandoned_during_batch_hold_time"] += env.abandon_phase == "during-batch-hold-time"
            counts["schedules_with_loop_abandoned_during_model_call"] += env.abandon_phase == "during-model-call"
            counts["requests_given_up_with_their_loop"] += len(env.cut)
            counts["requests_served_after_an_abandoned_loop"] += sum(
                1 for k, r in env.results.items() if r[0] == "ok" and env.loop_of.get(k, 0) >= 1)
        if getattr(env, "cancelled_req", None) is not None:
            counts["schedules_with_a_request_cancelled"] += 1
            ph = env.cancel_phase
            counts["schedules_with_request_cancelled_during_batch_hold_time"] += ph == "during-batch-hold-time"
            counts["schedules_with_request_cancelled_during_model_call"] += ph == "during-model-call"
            counts["schedules_with_request_cancelled_while_waiting_for_room_in_the_queue"] += \
                ph == "while-waiting-for-room-in-the-batch-queue"
            counts["requests_served_next_to_or_after_a_cancelled_request"] += sum(
                1 for k, r in env.results.items() if r[0] == "ok" and k != env.cancelled_req)
            counts["schedules_with_result_left_behind_for_a_cancelled_request"] += \
                info["outcome"] == "done" and any(i._req_results for i in w.indexes)
        if cfg.get("tpair"):
            counts["schedules_with_two_resembling_texts"] += 1
            counts["schedules_with_two_resembling_texts_and_cache_on"] += bool(cfg.get("cache"))
            counts["schedules_with_two_resembling_texts_in_one_model_call"] += any(
                all(t in c for t in cfg["texts"]) for c in w.calls)
        hit = bool(cfg.get("cache")) and info["outcome"] == "done" and got < n_texts
        counts["schedules_with_concurrent_model_calls"] += w.max_inflight >= 2
        counts["schedules_with_queue_full_wait"] += w.full_wait
        counts["schedules_with_shared_batch"] += shared
        counts["schedules_with_batch_dispatched_full"] += full
        counts["schedules_with_cache_hit"] += hit
        counts["schedules_nontrivial"] += bool(shared or full or hit or w.full_wait)
        counts["requests_completed"] += len(env.results)
        counts["vectors_checked"] += done_texts
        counts["model_calls"] += len(w.calls)
        asked = {}
        for c in w.calls:
            for t in c:
                asked[t] = asked.get(t, 0) + 1
        wanted = {}
        for kd, p, _r, _w in reqs:
            for t in (p if kd == "G" else [p]):
                wanted[t] = wanted.get(t, 0) + 1
        if any(n > wanted.get(t, 0) for t, n in asked.items()):
            counts["model_texts_not_requested"] += 1
        outcomes.add((info["outcome"], repr(w.calls),
                      repr([render(reqs[k][0], env.results.get(k)) for k in range(len(reqs))])))
        probs = judge(cfg, env, w, info)
        if probs:
            counts["violating_schedules"] += 1
            size = (0 if cfg.get("granularity", "quiescence") == "quiescence" else 1, len(reqs),
                    1 if cfg.get("cache") else 0, 0 if cfg.get("build") != "api" else 1,
                    len(trace), info["deviations"])
            for sig, what in probs:
                cur = viol.get(sig)
                if cur is None:
                    cur = viol[sig] = {"signature": sig, "size": (1 << 30,), "n": 0}
                cur["n"] += 1
                if size < cur["size"]:
                    cur["size"] = size
                    cur["what"] = (f"{what}  | config {public_cfg(cfg)!r} schedule "
                                   f"{' '.join(label_str(x) for x in trace)}")
                    cur["replay"] = replay_dict(cfg, env, w, info)
        elif len(samples) < 1 and w.calls and (len(trace) >= 5 or family == "colliding-texts") and \
                info["deviations"] >= 1 and (
                shared if family in ("plain", "burst-arrival") else
                getattr(env, "cancelled_req", None) is not None if family == "request-cancelled" else
                bool(cfg.get("cache")) if family == "colliding-texts" else w.failed is not None
                if family == "model-call-raises" else len(w.callers) >= 2 if family == "colliding-model-names"
                else getattr(env, "abandoned", False) if family == "loop-abandoned"
                else getattr(env, "switched", False)):
            samples.append({"family": family, "config": public_cfg(cfg),
                            "schedule": " ".join(label_str(x) for x in trace),
                            "model_calls": [list(c) for c in w.calls], "outcome": info["outcome"],
                            "results": [("raised the injected failure" if r[0] == "exc" else
                                         ("cancelled by its caller" if family == "request-cancelled" else
                                          "given up with its event loop") if r[0] == "cancelled"
                                         else "equal to model(text)")
                                        if r is not None else None for r in (env.results.get(k) for k in range(len(reqs)))],
                            "results_equal_model_or_injected_failure": True})

    total = {"states": 0, "transitions": 0, "choices_executed": 0, "handles_run": 0, "executor_calls": 0,
             "traces_validated_against_impl": 0, "max_depth": 0, "max_enabled_choices": 0,
             "max_deviations_in_a_schedule": 0}
    result = {"id": cfg["id"], "complete": True, "exhaustive": True, "max_deviations_completed": None}

    t_start = time.time()
    limit = cfg.get("deadline")
    if cfg.get("time_limit"):
        limit = min(limit, t_start + cfg["time_limit"]) if limit else t_start + cfg["time_limit"]

    def run_one(max_dev):
        ex = aio.Explorer(
            make, on_exec, observe=observe, max_choices=cfg.get("max_choices", 120), max_deviations=max_dev,
            validate_mod=cfg.get("val_mod", 0), deadline=limit, on_step=on_step,
            watchdog_s=WATCHDOG_AFTER if _SPUN or os.path.exists(os.path.join(cfg["scratch"], "spin-seen"))
            else WATCHDOG_S,
            granularity=cfg.get("granularity", "quiescence"), max_handles=cfg.get("max_handles", 20000), **ENV_KW)
        return ex.run()

    def absorb(st):
        total["states"] += st["states"]
        total["transitions"] += st["transitions"]
        total["choices_executed"] += st["choices_executed"]
        total["handles_run"] += st["handles_run"]
        total["executor_calls"] += st["executor_calls"]
        total["traces_validated_against_impl"] += st["validated"]
        total["max_deviations_in_a_schedule"] = max(total["max_deviations_in_a_schedule"], st["max_deviations_seen"])
        total["max_depth"] = max(total["max_depth"], st["max_depth"])
        total["max_enabled_choices"] = max(total["max_enabled_choices"], st["max_enabled"])

    try:
        if cfg.get("dev_iter"):
            # deviation-bounded: d = 0, 1, 2 ... each run repeats the schedules of the smaller bounds (they are
            # needed to find the branch points) but only schedules with exactly d deviations are counted
            result["exhaustive"] = False
            d = 0
            last = None
            while True:
                cfg["count_dev"] = d
                st = run_one(d)
                if not st["complete"]:
                    result["complete"] = False
                    break
                last = st
                result["max_deviations_completed"] = d
                if st["bound_pruned"] == 0:
                    result["exhaustive"] = True
                    break
                if cfg.get("max_dev") is not None and d >= cfg["max_dev"]:
                    break
                d += 1
            if last is not None:
                absorb(last)      # the largest completed bound contains all smaller ones
        else:
            st = run_one(None)
            absorb(st)
            result["complete"] = st["complete"]
            result["exhaustive"] = st["complete"]
    finally:
        shutil.rmtree(scratch, ignore_errors=True)
    counts.update(total)
    result.update({"counts": counts, "violations": list(viol.values()), "samples": samples,
                   "distinct_outcomes": len(outcomes), "by_deviations": by_dev,
                   "n_reqs": len(reqs), "granularity": cfg.get("granularity", "quiescence"), "family": family})
    return result


def label_str(x):
    if x[0] == "start":
        return f"start{x[1]}"
    if x[0] == "timer":
        return f"timer{x[1]}"
    if x[0] == "ext":
        return f"model{x[1][1]}" + ("-raises" if x[1][0] == "model-raises" else "")
    if x[0] == "cancel":
        return f"cancel{x[1]}"
    return x[0]


# ------------------------------------------------------------------ the space
B_A, B_B, B_E = ("B", "a"), ("B", "b"), ("B", "")
G_ABA, G_EB, G_NONE = ("G", ("a", "b", "a")), ("G", ("", "b")), ("G", ())
S_A, S_E = ("S", "a"), ("S", "")

CACHES_ALL = [
    (None, ()), (("in_memory", "md5"), ()), (("in_memory", "hash"), ()),
    (("filesystem", "md5"), ()), (("filesystem", "hash"), ()),
    (("filesystem", "md5"), ("a",)), (("filesystem", "hash"), ("a",)),
]
CACHES_MAIN = [(None, ()), (("in_memory", "md5"), ()), (("filesystem", "md5"), ()), (("filesystem", "hash"), ("a",))]
CACHES_TWO = [(None, ()), (("filesystem", "md5"), ("a",))]
TWO_MODEL_FAMILY = True     # configurations with two indexes (different embedding models) over one cache store


def multisets(pool, n):
    return list(itertools.combinations_with_replacement(pool, n))


def scenarios(pool, total, max_second=2):
    """[(round-1 multiset, round-2 multiset)] with |r1| >= 1, |r1| + |r2| <= total"""
    out = []
    for n1 in range(1, total + 1):
        for m1 in multisets(pool, n1):
            out.append((m1, ()))
            for n2 in range(1, min(max_second, total - n1) + 1):
                for m2 in multisets(pool, n2):
                    out.append((m1, m2))
    return out


def variants(scen, caches, api_build=True):
    """all configurations of one scenario"""
    m1, m2 = scen
    reqs = [(kd, p, 1) for kd, p in m1] + [(kd, p, 2) for kd, p in m2]
    has_s = any(kd == "S" for kd, _p, _r in reqs)
    has_b = any(kd == "B" for kd, _p, _r in reqs)
    modes = [(True, "prebuilt")]
    if has_s:
        modes.append((False, "prebuilt"))
        if api_build:
            modes.append((True, "api"))
    out = []
    for use_batching, build in modes:
        sizes = (1, 2, 3) if has_b or (has_s and use_batching) else (2,)
        for mbs in sizes:
            for cache, prewarm in caches:
                out.append({"reqs": reqs, "mbs": mbs, "cache": list(cache) if cache else None,
                            "prewarm": list(prewarm), "use_batching": use_batching, "build": build})
    return out


def tasks(tier):
    out = []
    if tier == "quick":
        pool = [B_A, B_B, B_E, G_ABA, G_EB, S_A]
        for scen in scenarios(pool, 3, max_second=2):
            n = len(scen[0]) + len(scen[1])
            out += variants(scen, CACHES_ALL if n <= 2 else CACHES_MAIN, api_build=(n <= 2))
        # 4 batched requests, duplicates, every completion order
        for cache, prewarm in CACHES_TWO:
            for mbs in (2, 3):
                out.append({"reqs": [("B", "a", 1), ("B", "b", 1), ("B", "a", 1), ("B", "", 1)], "mbs": mbs,
                            "cache": list(cache) if cache else None, "prewarm": list(prewarm),
                            "use_batching": True, "build": "prebuilt"})
        # loop-iteration granularity: external events between any two loop iterations
        for m in multisets([B_A, B_B, G_EB], 2):
            for c in variants((m, ()), CACHES_TWO):
                out.append(dict(c, granularity="iteration", max_choices=400))
        # three batched requests with max_batch_size 1, 2 at loop-iteration granularity (two arrivals within one
        # iteration while a new batch is being set up), deviation bound iterated within a time limit
        for m in ((B_A, B_B, B_E), (B_A, B_A, B_B)):
            for mbs in (1, 2):
                out.append({"reqs": [(kd, p, 1) for kd, p in m], "mbs": mbs, "cache": None, "prewarm": [],
                            "use_batching": True, "build": "prebuilt", "granularity": "iteration",
                            "max_choices": 600, "dev_iter": True, "max_dev": 40, "big": True, "time_limit": 12})
    else:
        pool = [B_A, B_B, B_E, G_ABA, G_EB, G_NONE, S_A, S_E]
        for scen in scenarios(pool, 3, max_second=2):
            out += variants(scen, CACHES_ALL)
        pool4 = [B_A, B_B, B_E, G_ABA, S_A]
        for scen in scenarios(pool4, 4, max_second=2):
            if len(scen[0]) + len(scen[1]) == 4:
                # max_batch_size 1 (every request its own batch) is covered with <= 3 requests
                out += [c for c in variants(scen, CACHES_MAIN, api_build=False) if c["mbs"] != 1 or len(scen[1])]
        # 5 requests: deviation bound iterated 0, 1, 2 ... until the task's share of the budget is used
        five = [("B", "a", 1), ("B", "b", 1), ("B", "a", 1), ("B", "", 1), ("B", "b", 1)]
        mixed = [("B", "a", 1), ("B", "b", 1), ("G", ("a", "b", "a"), 1), ("S", "a", 1), ("B", "", 1)]
        two_rounds = [("B", "a", 1), ("B", "b", 1), ("B", "", 1), ("B", "b", 2), ("B", "a", 2)]
        for reqs in (five, mixed, two_rounds):
            for cache, prewarm in CACHES_TWO:
                for mbs in (2, 3):
                    out.append({"reqs": reqs, "mbs": mbs, "cache": list(cache) if cache else None,
                                "prewarm": list(prewarm), "use_batching": True, "build": "prebuilt",
                                "dev_iter": True, "max_dev": 12, "big": True, "time_limit": 80})
        # loop-iteration granularity
        for m in multisets([B_A, B_B, B_E, G_ABA, G_EB, S_A], 2):
            for c in variants((m, ()), CACHES_MAIN, api_build=False):
                out.append(dict(c, granularity="iteration", max_choices=400))
        for m in ((B_A, B_B, B_E), (B_A, B_A, B_B), (B_A, B_B, G_EB)):
            for cache, prewarm in CACHES_TWO:
                for mbs in (1, 2, 3):
                    out.append({"reqs": [(kd, p, 1) for kd, p in m], "mbs": mbs,
                                "cache": list(cache) if cache else None, "prewarm": list(prewarm),
                                "use_batching": True, "build": "prebuilt", "granularity": "iteration",
                                "max_choices": 600, "dev_iter": True, "max_dev": 40, "big": True, "time_limit": 60})
    # two indexes with different embedding models and the same cache settings: requests of both, all orders
    pool2 = [B_A, G_ABA, S_A] if tier == "quick" else [B_A, B_E, G_ABA, G_EB, S_A]
    if not TWO_MODEL_FAMILY:
        pool2 = []
    for x in pool2:
        for y in pool2:
            for second_round in (False, True):
                reqs = [(x[0], x[1], 1, 0), (y[0], y[1], 2 if second_round else 1, 1)]
                has_b = any(kd in "BS" for kd, _p, _r, _w in reqs)
                for mbs in ((1, 2) if has_b else (2,)):
                    for cache, prewarm in CACHES_ALL:
                        if prewarm:
                            continue
                        out.append({"reqs": reqs, "mbs": mbs, "cache": list(cache) if cache else None, "prewarm": [],
                                    "use_batching": True, "build": "prebuilt"})
    # ... and three requests: one index is suspended in its model call while the other index is used, and a
    # second-round request of either index asks for a text the other one embedded meanwhile
    pool3 = [B_A, G_ABA] if tier == "quick" else [B_A, B_E, G_ABA, S_A]
    if not TWO_MODEL_FAMILY:
        pool3 = []
    for x in pool3:
        for y in pool3:
            for z in pool3:
                for zwhich in (0, 1):
                    reqs = [(x[0], x[1], 1, 0), (y[0], y[1], 1, 1), (z[0], z[1], 2, zwhich)]
                    for cache, prewarm in CACHES_ALL:
                        if prewarm or not cache:
                            continue
                        if tier == "quick" and cache[1] == "hash":
                            continue
                        out.append({"reqs": reqs, "mbs": 2, "cache": list(cache), "prewarm": [],
                                    "use_batching": True, "build": "prebuilt"})
    out += family_tasks(tier)
    for c in out:
        c.setdefault("granularity", "quiescence")
    return out


MODEL_FAILURE_FAMILY = True     # configurations in which one call of the embedding model may raise
SECOND_LOOP_FAMILY = True       # configurations whose second round runs on a fresh event loop (same index objects)
MODEL_NAMES_FAMILY = True       # two indexes whose (engine, model name) differ but resemble each other
ENGINE_BOUNDARY_PAIRS = True    # ... including pairs that differ only in where the engine name ends and the model begins
LOOP_ABANDONED_FAMILY = True    # the first event loop is given up at any moment while requests are under way
REQUEST_CANCELLED_FAMILY = True  # one request is cancelled by its caller at any moment while it is under way
COLLIDING_TEXTS_FAMILY = True   # two different texts that resemble each other, every key generator x store

# Two different embedding models in one process (core index and knowledge base, two configurations of one server):
# (label = how the two names resemble each other, (engine, model name) of index 0, ... of index 1).  Every pair
# collides under at least one of the KEY_DERIVATIONS below - ways in which a process-wide table or a cache name space
# may shorten, normalise or join the two strings.  The names are different, so the models are different: the fake
# provider derives its vectors from the full (engine, model name).
_LONG = "acme/text-embedding-encoder-for-retrieval-multilingual-base-"
_TAIL = "-text-embedding-encoder-for-retrieval-multilingual-base-model-v2"
NAME_PAIRS = [
    ("same-last-path-component", (ENGINE, "acme/enc"), (ENGINE, "globex/enc")),
    ("same-last-path-component-local-checkpoints", (ENGINE, "/models/v1/enc"), (ENGINE, "/models/v2/enc")),
    ("short-and-qualified-name", (ENGINE, "enc"), (ENGINE, "acme/enc")),
    ("same-directory", (ENGINE, "acme/enc"), (ENGINE, "acme/enc-large")),
    ("one-name-a-prefix-of-the-other", (ENGINE, "enc"), (ENGINE, "enc-large")),
    ("same-up-to-version-suffix", (ENGINE, "enc-v1"), (ENGINE, "enc-v2")),
    ("same-up-to-revision", (ENGINE, "acme/enc@r1"), (ENGINE, "acme/enc@r2")),
    ("same-up-to-letter-case", (ENGINE, "acme/Enc"), (ENGINE, "acme/enc")),
    ("same-up-to-surrounding-space", (ENGINE, "enc"), (ENGINE, "enc ")),
    ("same-up-to-separator-characters", (ENGINE, "acme/enc"), (ENGINE, "acme_enc")),
    ("same-first-60-characters", (ENGINE, _LONG + "a"), (ENGINE, _LONG + "b")),
    ("same-last-60-characters", (ENGINE, "en" + _TAIL), (ENGINE, "de" + _TAIL)),
    ("same-model-name-two-engines", (ENGINE, "enc"), (ENGINE_TWO, "enc")),
    ("engine-model-boundary-dash", (ENGINE, "acme-enc"), (ENGINE_DASH, "enc")),
    ("engine-model-boundary-slash", (ENGINE, "acme/enc"), (ENGINE_SLASH, "enc")),
]
BOUNDARY_LABELS = ("engine-model-boundary-dash", "engine-model-boundary-slash")
KEY_DERIVATIONS = {
    "last path component of the model name": lambda e, n: (e, n.rsplit("/", 1)[-1]),
    "first path component of the model name": lambda e, n: (e, n.split("/", 1)[0]),
    "directory of the model name": lambda e, n: (e, n.rsplit("/", 1)[0] if "/" in n else n),
    "model name without a version / revision / size suffix": lambda e, n: (e, re.sub(r"([-@](v?\d+|r\d+|large|base))+$", "", n)),
    "case-folded model name": lambda e, n: (e, n.lower()),
    "stripped model name": lambda e, n: (e, n.strip()),
    "model name with non-alphanumeric characters replaced": lambda e, n: (e, re.sub(r"[^0-9A-Za-z]", "_", n)),
    "first 60 characters of the model name": lambda e, n: (e, n[:60]),
    "last 60 characters of the model name": lambda e, n: (e, n[-60:]),
    "model name alone": lambda e, n: n,
    "engine and model name joined by '-'": lambda e, n: f"{e}-{n}",
    "engine and model name joined by '/'": lambda e, n: f"{e}/{n}",
}


def name_pairs():
    """-> [(label, m1, m2, [derivations under which the two collide])] of the pairs in use"""
    out = []
    for label, m1, m2 in NAME_PAIRS:
        if label in BOUNDARY_LABELS and not ENGINE_BOUNDARY_PAIRS:
            continue
        if m1 == m2:
            raise RuntimeError(f"HARNESS: the two models of pair {label} are the same")
        under = [d for d, f in KEY_DERIVATIONS.items() if f(*m1) == f(*m2)]
        if not under:
            raise RuntimeError(f"HARNESS: the names of pair {label} collide under no key derivation")
        out.append((label, m1, m2, under))
    return out


# Two DIFFERENT texts that resemble each other: (label = how they resemble, text 1, text 2).  Every pair collides under
# at least one of TEXT_KEY_DERIVATIONS - cheap ways of turning a text into a cache key (32-bit checksums, sums,
# polynomial string hashes, normalisations, truncations).  The checksum / hash collisions hold whatever common prefix
# is put in front of the two texts (a key generator is given name space + text): checked with two prefixes below.
# The texts differ, so the vectors differ: the fake model derives its vector from the exact text.
_T60 = "please tell me everything about the refund policy of product "
_T60B = " is what I would like to know about, as soon as you possibly can"
TEXT_PAIRS = [
    ("same-adler32-checksum", "aca", "bab"),
    ("same-adler32-checksum-longer-texts", "ada lovelace", "bbb lovelace"),
    ("same-crc32-checksum", "uejgtcuo", "iiwucoup"),
    ("same-crc32-checksum-2", "lvtnpxbn", "cxjabgax"),
    ("same-polynomial-31-string-hash", "Aa", "BB"),
    ("same-polynomial-33-string-hash", "ab", "bA"),
    ("same-byte-sum", "ad", "bc"),
    ("same-byte-xor", "ad", "bg"),
    ("anagrams", "listen", "silent"),
    ("same-length", "cat", "dog"),
    ("same-up-to-letter-case", "Hello", "hello"),
    ("same-up-to-surrounding-space", "hi", " hi"),
    ("same-up-to-trailing-newline", "hi", "hi\n"),
    ("same-up-to-inner-whitespace", "a b", "a  b"),
    ("same-up-to-whitespace-kind", "a b", "a\tb"),
    ("empty-and-blank", "", " "),
    ("same-up-to-punctuation", "hi", "hi!"),
    ("same-up-to-unicode-normalisation", "caf\u00e9", "cafe\u0301"),
    ("same-up-to-non-ascii-characters", "na\u00efve", "nave"),
    ("same-first-60-characters", _T60 + "A", _T60 + "B"),
    ("same-last-60-characters", "the weather" + _T60B, "the invoice" + _T60B),
    ("one-text-a-prefix-of-the-other", "hello", "hello there"),
]


def _poly(mult, mod=1 << 32):
    def f(t):
        h = 0
        for ch in t.encode("utf-8"):
            h = (h * mult + ch) % mod
        return h
    return f


def _xor(t):
    h = 0
    for ch in t.encode("utf-8"):
        h ^= ch
    return h


TEXT_KEY_DERIVATIONS = {
    "adler32 of the text": lambda t: zlib.adler32(t.encode("utf-8")),
    "crc32 of the text": lambda t: zlib.crc32(t.encode("utf-8")),
    "polynomial string hash, multiplier 31": _poly(31),
    "polynomial string hash, multiplier 33": _poly(33),
    "sum of the bytes": lambda t: sum(t.encode("utf-8")),
    "xor of the bytes": _xor,
    "sorted characters": lambda t: "".join(sorted(t)),
    "length": len,
    "case-folded text": lambda t: t.casefold(),
    "stripped text": lambda t: t.strip(),
    "whitespace-collapsed text": lambda t: " ".join(t.split()),
    "alphanumeric characters only": lambda t: re.sub(r"[^0-9A-Za-z]", "", t),
    "NFC-normalised text": lambda t: unicodedata.normalize("NFC", t),
    "ascii characters only": lambda t: t.encode("ascii", "ignore"),
    "first 60 characters": lambda t: t[:60],
    "last 60 characters": lambda t: t[-60:],
    "first 5 characters": lambda t: t[:5],
}
_PREFIX_PROOF = ("", '["an engine", "a/model"]\n', "x" * 37)     # a name space put in front must not matter
_PREFIX_FREE = ("adler32 of the text", "crc32 of the text", "polynomial string hash, multiplier 31",
                "polynomial string hash, multiplier 33")


def text_pairs():
    """-> [(label, t1, t2, [derivations under which the two collide])] of the pairs in use"""
    out = []
    for label, t1, t2 in TEXT_PAIRS:
        if t1 == t2:
            raise RuntimeError(f"HARNESS: the two texts of pair {label} are the same")
        if vec(t1) == vec(t2):
            raise RuntimeError(f"HARNESS: the fake model does not tell the texts of pair {label} apart")
        under = []
        for d, f in TEXT_KEY_DERIVATIONS.items():
            if d in _PREFIX_FREE:
                hits = [f(p + t1) == f(p + t2) for p in _PREFIX_PROOF]
                if any(hits) and not all(hits):
                    continue        # a collision that a name space in front would undo does not count
                if all(hits):
                    under.append(d)
            elif f(t1) == f(t2):
                under.append(d)
        if not under:
            raise RuntimeError(f"HARNESS: the texts of pair {label} collide under no key derivation")
        out.append((label, t1, t2, under))
    return out


def _cfg(reqs, mbs, cache, prewarm, **kw):
    c = {"reqs": list(reqs), "mbs": mbs, "cache": list(cache) if cache else None, "prewarm": list(prewarm),
         "use_batching": True, "build": "prebuilt"}
    c.update(kw)
    return c


def family_tasks(tier):
    """bursts (all requests of a round arrive within one loop iteration), a model call that raises, a second round
    on a fresh event loop"""
    out = []
    quick = tier == "quick"
    # -- bursts: the requests of a round arrive together; one loop and (second-loop family) a fresh loop for round 2
    pool_b = [B_A, B_B, S_A] if quick else [B_A, B_B, B_E, S_A]
    sizes = (2, 3) if quick else (2, 3, 4)
    loops_opts = (1, 2) if SECOND_LOOP_FAMILY else (1,)
    for n1 in sizes:
        for m1 in multisets(pool_b, n1):
            for n2 in (0,) + sizes:
                for m2 in (multisets(pool_b, n2) if n2 else [()]):
                    if n1 + n2 > (5 if quick else 6):
                        continue
                    reqs = [(kd, p, 1) for kd, p in m1] + [(kd, p, 2) for kd, p in m2]
                    for mbs in (1, 2) if quick else (1, 2, 3):
                        if mbs >= max(n1, n2):
                            continue        # nobody can find the queue full
                        for cache, prewarm in CACHES_TWO:
                            for loops in (loops_opts if n2 else (1,)):
                                out.append(_cfg(reqs, mbs, cache, prewarm, burst=True, loops=loops))
    if SECOND_LOOP_FAMILY:
        # -- separate arrivals, second round on a fresh loop
        pool_l = [B_A, B_B, G_EB, S_A] if quick else [B_A, B_B, B_E, G_ABA, G_EB, S_A]
        for scen in scenarios(pool_l, 3 if quick else 4, max_second=2):
            if scen[1]:
                for c in variants(scen, CACHES_TWO if quick else CACHES_MAIN, api_build=False):
                    if c["mbs"] != 3:
                        out.append(dict(c, loops=2))
        # -- loop-iteration granularity (a request can find the queue full without a burst), deviation bounded
        for m, mbs in (((B_A, B_B), 1), ((B_A, B_B, B_E), 2)):
            reqs = [(kd, p, 1) for kd, p in m] + [(kd, p, 2) for kd, p in m]
            out.append(_cfg(reqs, mbs, None, (), loops=2, granularity="iteration", max_choices=800, dev_iter=True,
                            max_dev=40, big=True, time_limit=12 if quick else 60))
    if MODEL_NAMES_FAMILY:
        # -- two indexes, two models with resembling names: one request on each, same round (either may load its
        # model first, either may be served first) or one after the other (the second one finds what the first left)
        pool_n = [B_A, G_ABA, S_A] if quick else [B_A, B_E, G_ABA, G_EB, S_A]
        caches_n = [None, ("filesystem", "md5")] if quick else [c for c, pw in CACHES_ALL if not pw]
        for label, m1, m2, _under in name_pairs():
            for x in pool_n:
                for y in pool_n:
                    for second_round in (False, True):
                        reqs = [(x[0], x[1], 1, 0), (y[0], y[1], 2 if second_round else 1, 1)]
                        has_b = any(kd in "BS" for kd, _p, _r, _w in reqs)
                        for mbs in ((2,) if quick or not has_b else (1, 2)):
                            for cache in caches_n:
                                out.append(_cfg(reqs, mbs, cache, (), pair=label, models=[list(m1), list(m2)]))
    if LOOP_ABANDONED_FAMILY and SECOND_LOOP_FAMILY:
        # -- the first loop is given up (as asyncio.run does it when its main coroutine times out or is interrupted)
        # at any moment at which a request of round 1 is under way; round 2 arrives on a fresh loop
        pool_a = [B_A, B_B, S_A, G_EB] if quick else [B_A, B_B, B_E, S_A, G_ABA, G_EB]
        pool_a2 = [B_A, B_B, S_A] if quick else [B_A, B_B, B_E, S_A]    # what the next loop asks goes through the batcher
        for n1 in (1, 2):
            for m1 in multisets(pool_a, n1):
                if not any(kd in "BS" for kd, _p in m1):
                    continue
                for n2 in (1, 2):
                    for m2 in multisets(pool_a2, n2):
                        if quick and n2 == 2 and S_A in m2:
                            continue
                        reqs = [(kd, p, 1) for kd, p in m1] + [(kd, p, 2) for kd, p in m2]
                        for mbs in (1, 2) if quick else (1, 2, 3):
                            for cache, prewarm in CACHES_TWO:
                                for burst in ((False, True) if n1 > 1 or n2 > 1 else (False,)):
                                    out.append(_cfg(reqs, mbs, cache, prewarm, loops=2, abandon=True,
                                                    **({"burst": True} if burst else {})))
    if REQUEST_CANCELLED_FAMILY:
        # -- the caller of one request gives up at any moment at which that request is under way (waiting for room in
        # the batch queue, while its batch is held, during the model call); everybody else - the requests of the same
        # batch, of other batches, and a request that arrives afterwards - must be served
        pool_c = [B_A, B_B, S_A, G_EB] if quick else [B_A, B_B, B_E, S_A, G_ABA, G_EB]
        for n1 in (1, 2, 3):
            for m1 in multisets(pool_c, n1):
                if not any(kd in "BS" for kd, _p in m1):
                    continue
                plain3 = all(kd == "B" for kd, _p in m1)    # quick, 3 separate arrivals: batched texts only
                for m2 in ((), (B_B,)) if n1 > 1 else ((B_B,), (S_A,)):
                    reqs = [(kd, p, 1) for kd, p in m1] + [(kd, p, 2) for kd, p in m2]
                    for mbs in (1, 2, 3):
                        if mbs == 3 and n1 < 3:
                            continue        # as mbs 2 with 2 requests: the batch never fills
                        for cache, prewarm in (CACHES_TWO[:1] if quick and n1 == 3 else CACHES_TWO):
                            for burst in ((False, True) if n1 > mbs else (False,)):
                                if quick and n1 == 3 and not burst and (m2 or not plain3):
                                    continue
                                if quick and n1 == 3 and any(kd == "G" for kd, _p in m1):
                                    continue
                                out.append(_cfg(reqs, mbs, cache, prewarm, cancel=True,
                                                **({"burst": True} if burst else {})))
        # loop-iteration granularity: the caller may give up between any two loop iterations (a request that waits
        # for room in the batch queue exists only there)
        # (deviation bound iterated within a time limit, as for the other large configurations)
        for m in (multisets([B_A, B_B], 2)[1:2] if quick else multisets([B_A, B_B, S_A], 2)):
            for mbs in (1,) if quick else (1, 2):
                out.append(_cfg([(kd, p, 1) for kd, p in m] + ([] if quick else [("B", "b", 2)]), mbs, None, (),
                                cancel=True, granularity="iteration", max_choices=400, dev_iter=True,
                                max_dev=3 if quick else 40, big=True, time_limit=8 if quick else 60))
    if COLLIDING_TEXTS_FAMILY:
        # -- two different texts that resemble each other (TEXT_PAIRS), every key generator x store (and cache off):
        # both in one list, one after the other (the second finds what the first left in the store), both in one
        # batch / in two batches in every order, and a search on an index built from them through add_items/build
        caches_t = [None] + [c for c, pw in CACHES_ALL if c and not pw]
        for label, t1, t2, _under in text_pairs():
            shapes = [
                ([("G", (t1, t2), 1)], (2,), "prebuilt"),
                ([("G", (t1,), 1), ("G", (t2, t1), 2)], (2,), "prebuilt"),
                ([("B", t1, 1), ("B", t2, 1)], (1, 2), "prebuilt"),
                ([("B", t1, 1), ("B", t2, 2)], (2,), "prebuilt"),
                ([("S", t2, 1)], (2,), "api"),
            ]
            if not quick:
                shapes += [([("G", (t2, t1, t2), 1), ("B", t1, 1)], (1, 2), "prebuilt"),
                           ([("S", t1, 1), ("S", t2, 1)], (1, 2), "api")]
            for reqs, sizes_t, build in shapes:
                for mbs in sizes_t:
                    for cache in caches_t:
                        if build == "api" and not cache:
                            continue
                        out.append(_cfg(reqs, mbs, cache, (), tpair=label, texts=[t1, t2], build=build,
                                        **({"items": [t1, t2, "something else"]} if build == "api" else {})))
    if MODEL_FAILURE_FAMILY:
        # -- every model call may raise (at most one per schedule); a second round shows that the index still serves
        pool_f = [B_A, B_B, G_EB, S_A] if quick else [B_A, B_B, B_E, G_ABA, G_EB, S_A]
        for scen in scenarios(pool_f, 3, max_second=1 if quick else 2):
            for c in variants(scen, CACHES_TWO if quick else CACHES_MAIN, api_build=False):
                out.append(dict(c, fail=True))
        # ... and bursts: a failing batch while other requests wait for room in the queue
        for n1 in (2, 3):
            for m1 in multisets([B_A, B_B, S_A], n1):
                for second in ((), (B_A,)):
                    reqs = [(kd, p, 1) for kd, p in m1] + [(kd, p, 2) for kd, p in second]
                    for mbs in (1, 2):
                        for cache, prewarm in CACHES_TWO:
                            out.append(_cfg(reqs, mbs, cache, prewarm, burst=True, fail=True))
        if not quick:
            # loop-iteration granularity
            for m in multisets([B_A, B_B, G_EB], 2):
                for c in variants((m, ()), CACHES_TWO):
                    out.append(dict(c, fail=True, granularity="iteration", max_choices=400))
    return out


def small_family(cfg):
    """a configuration of one of the families with a special environment / special models (cheap, run first)"""
    return bool(cfg.get("fail") or cfg.get("burst") or cfg.get("loops", 1) > 1 or cfg.get("pair")
                or cfg.get("cancel") or cfg.get("tpair"))


def weight(cfg):
    """rough cost of a configuration (big ones are scheduled first)"""
    n = len(cfg["reqs"])
    w = 6.0 ** n
    if cfg.get("granularity") == "iteration":
        w *= 40
    if any(r[2] == 2 for r in cfg["reqs"]):
        w /= 3
    if small_family(cfg):
        w *= 100    # the three small families first (seconds of CPU in total): a time cap never cuts them
    if cfg.get("cancel") or cfg.get("tpair"):
        w *= 1000   # ... and of these the two families that cost least per class of behaviour they cover
    if cfg.get("big"):
        w = 0       # the deviation-bounded configurations run last, each within its own time limit
    return w


# ------------------------------------------------------------------ run
def scratch_root():
    """per-run scratch directory for the filesystem cache store (removed by the caller); on tmpfs when there
    is one: 16 workers creating and unlinking small files stall an ext4 journal for seconds"""
    shm = "/dev/shm"
    if os.path.isdir(shm) and os.access(shm, os.W_OK | os.X_OK):
        return tempfile.mkdtemp(prefix="vf_c19_", dir=shm)
    return tempfile.mkdtemp(prefix="vf_c19_")


def run(rep, tier):
    from vf import par

    lib()
    base = scratch_root()
    try:
        _run(rep, tier, base, par)
    finally:
        shutil.rmtree(base, ignore_errors=True)


def _run(rep, tier, base, par):
    ts = tasks(tier)
    budget = 50 if tier == "quick" else 18 * 60
    t0 = time.time()
    deadline = t0 + budget
    val_mod = 20 if tier == "quick" else 50
    for i, c in enumerate(ts):
        c["id"] = i
        c["scratch"] = base
        c["val_mod"] = val_mod
        c["deadline"] = deadline      # the large deviation-iterated configurations also have a time_limit of their own
    if rep.seed:
        import random

        random.Random(rep.seed).shuffle(ts)      # order of work only
        ts.sort(key=lambda c: 3 if c.get("big") else 2 if not small_family(c) else
                0 if c.get("cancel") or c.get("tpair") else 1)    # as weight() does
    else:
        ts.sort(key=lambda c: -weight(c))
    by_id = {c["id"]: c for c in ts}
    gc.collect()
    gc.freeze()
    done = 0
    incomplete = []
    by_sig = {}
    by_req = {}
    dev_done = []
    n_exhaustive = 0
    by_family = {}
    samples_by_family = {}
    for res in par.pmap(explore, ts, chunksize=1):
        done += 1
        rep.merge_counts(res["counts"])
        rep.add("distinct_outcomes", res["distinct_outcomes"])
        key = f"{res['n_reqs']}-requests" + ("-loop-iteration-granularity" if res["granularity"] == "iteration" else "")
        fam = by_family.setdefault(res["family"], {"configs": 0, "schedules": 0, "exhaustive_configs": 0,
                                                   "violating_schedules": 0})
        fam["configs"] += 1
        fam["schedules"] += res["counts"]["schedules"]
        fam["exhaustive_configs"] += bool(res["exhaustive"])
        fam["violating_schedules"] += res["counts"]["violating_schedules"]
        slot = by_req.setdefault(key, {"configs": 0, "schedules": 0, "exhaustive_configs": 0})
        slot["configs"] += 1
        slot["schedules"] += res["counts"]["schedules"]
        slot["exhaustive_configs"] += bool(res["exhaustive"])
        n_exhaustive += bool(res["exhaustive"])
        if not res["exhaustive"]:
            cfg = by_id[res["id"]]
            if cfg.get("dev_iter"):
                dev_done.append({"config": public_cfg(cfg), "max_deviations_completed": res["max_deviations_completed"],
                                 "schedules_checked_by_deviations": res["by_deviations"],
                                 "a_larger_bound_was_started_but_not_finished": not res["complete"]})
            else:
                incomplete.append(public_cfg(cfg))
        for s in res["samples"]:
            if len(samples_by_family.setdefault(s["family"], [])) < 2:
                samples_by_family[s["family"]].append(s)
        for v in res["violations"]:
            v["size"] = tuple(v["size"])
            cur = by_sig.get(v["signature"])
            if cur is None:
                by_sig[v["signature"]] = v
            elif (v["size"], repr(v["replay"])) < (cur["size"], repr(cur["replay"])):
                v["n"] += cur["n"]
                by_sig[v["signature"]] = v
            else:
                cur["n"] += v["n"]
    for i in (0, 1):        # one sample of every family first (at most 6 are kept)
        for f in sorted(samples_by_family, key=lambda f: (f != "plain", f)):    # the core family is always kept
            if i < len(samples_by_family[f]):
                rep.sample(samples_by_family[f][i])
    rep.set("by_family", by_family)
    if MODEL_NAMES_FAMILY:
        rep.set("model_name_pairs", {label: {"index_0": list(m1), "index_1": list(m2), "collide_under": under}
                                     for label, m1, m2, under in name_pairs()})
    if COLLIDING_TEXTS_FAMILY:
        rep.set("text_pairs", {label: {"texts": [t1, t2], "collide_under": under}
                               for label, t1, t2, under in text_pairs()})
    new = 0
    for sig in sorted(by_sig, key=lambda s: (by_sig[s]["size"], s)):
        v = by_sig[sig]
        if rep.violation(sig, v["what"] + f"  [{v['n']} schedule(s) show this class]", v["replay"]):
            new += 1
    bounded = [d["max_deviations_completed"] for d in dev_done if d["max_deviations_completed"] is not None]
    rep.set("configurations", len(ts))
    rep.set("configurations_done", done)
    rep.set("configurations_enumerated_exhaustively", n_exhaustive)
    rep.set("by_request_count", by_req)
    rep.set("deviation_bounded_configurations", dev_done[:40])
    rep.set("configurations_stopped_early", len(incomplete))
    if incomplete:
        rep.set("configurations_stopped_early_examples", incomplete[:10])
    # every schedule of the exhaustively enumerated configurations was run, whatever its number of deviations
    # (max_deviations_in_a_schedule); for the bounded ones the smallest completed bound is what can be claimed
    rep.set("max_deviations_completed",
            (min(bounded) if bounded else 0) if dev_done else rep.cov.get("max_deviations_in_a_schedule", 0))
    rep.set("violation_classes", {s: {"schedules": v["n"], "smallest": v["what"]} for s, v in sorted(by_sig.items())})
    rep.set("violation_classes_found", len(by_sig))
    rep.set("violation_classes_not_in_known_findings", new)
    exhaustive = done == len(ts) and not incomplete and n_exhaustive == len(ts)
    rep.set("exhaustive", exhaustive)
    # the configurations that are not deviation-bounded by design (quick: all; thorough: everything with <= 4
    # requests and the 2-request loop-iteration family) were enumerated completely
    rep.set("exhaustive_for_unbounded_configurations", done == len(ts) and not incomplete)
    if not exhaustive:
        parts = []
        if incomplete:
            parts.append(f"{len(incomplete)} configuration(s) stopped before all their schedules were run "
                         f"(time budget {budget}s, or a non-terminating execution)")
        if dev_done:
            parts.append(f"{len(dev_done)} large configuration(s) enumerated up to a deviation bound only "
                         f"(smallest completed bound {min(bounded) if bounded else 'none'}; see deviation_bounded_configurations)")
        rep.set("cap_hit", "; ".join(parts) + f"; {n_exhaustive}/{len(ts)} configurations were enumerated completely")
    rep.assumptions += [
        "schedule = order of the external events (request arrivals, hold-timer expiries, model answers); after each "
        "event the FIFO ready queue is drained; asyncio's ready queue is never permuted.  In the configurations "
        "marked loop-iteration-granularity external events may also land between any two loop iterations",
        "all hold timers have the same delay, so they fire in creation order; any timer may beat any model answer or arrival",
        "the embedding model always answers and its answer depends on the texts it was given at call time only; in the "
        "family model-call-raises every model call has a second possible answer - it raises ModelCallFailed (a "
        "ConnectionError) - and at most one call raises in one schedule.  There a request may also end with that error "
        "if it was under way when the call raised; nobody may wait for ever, requests arriving later get model(text), "
        "and when requests were left waiting the next round is released once nothing else can happen",
        "family request-cancelled: in these configurations one more choice 'the caller of request k gives up' "
        "(task.cancel() of that request, as asyncio.wait_for does on a timeout) is enabled at every quiescent point at "
        "which request k is under way and some other event can still happen; at most one request is cancelled in one "
        "schedule.  Nothing is demanded of the cancelled request (a vector it returns all the same must be right) and "
        "the batch tables are not demanded empty afterwards (the result computed for it stays there: counted); every "
        "other request of the schedule, also one arriving later, must complete with model(text).  In all other "
        "configurations no request is cancelled",
        "family colliding-texts: the requests ask for two different texts that collide under a cheap key derivation "
        "(coverage.text_pairs lists the pairs and the derivations under which each collides; checksum / string-hash "
        "collisions are checked to hold behind any common prefix); cache off and every store x key generator; the "
        "search configurations build their 3-item index from the two texts through add_items/build",
        "family burst-arrival: all requests of a round are started within one loop iteration (asyncio.gather); at "
        "quiescence granularity this is how a request finds the batch queue full",
        "family second-event-loop: the requests of round 2 run on a fresh event loop after the first one was wound up "
        "as asyncio.run does (remaining tasks cancelled, loop closed); the index objects are the same.  Two loops "
        "never run at the same time (no threads)",
        "a small family of configurations has two indexes with different embedding models that are given the same "
        "cache settings (every other configuration has one index)",
        "family colliding-model-names: the two models of such a configuration are a pair of (engine, model name) that "
        "differ but collide under a key derivation (coverage.model_name_pairs lists the pairs and the derivations "
        "under which each collides); different names are different models - the fake provider derives its vectors "
        "from the full engine and model name, and is registered under four engine names; one request per index",
        "family loop-abandoned: the first event loop may be given up at any quiescent point at which a request of "
        "round 1 is under way (all its tasks cancelled, wound up and closed as asyncio.run does); requests of round 1 "
        "that had not arrived never do; nothing is demanded of the requests that went with the loop, and the batch "
        "tables are not demanded empty afterwards; every request of round 2 must complete with model(text)",
        "texts from {'a','b','','c'}; request pool: _batch_get_embeddings(t), _get_embeddings([a,b,a] / ['',b] / []), "
        "search(t, max_results=1) on a 4-item index (prebuilt Annoy index handed to the constructor, or built through "
        "add_items/build which also warms the cache)",
        "cache stores in_memory and filesystem (scratch dir, emptied before every execution), key generators md5 and "
        "hash (PYTHONHASHSEED=0); redis is not covered",
        "identical requests of one round arrive in index order (symmetry reduction); requests of round 2 arrive after "
        "every request of round 1 returned",
        "bounds: quick = all multisets of <=3 requests (<=2 in a second round) + one 4-request batch scenario; thorough "
        "= <=4 requests completely, 5 requests and 3 requests at loop-iteration granularity up to the reported deviation bound; "
        "families: bursts of 2-3 [thorough 2-4] requests per round, two rounds; a failing model call with <=3 requests",
        "_req_queue/_req_results are demanded empty only when every request has returned; the number of model calls "
        "and cache hits are counted, not demanded",
    ]


# ------------------------------------------------------------------ replay of one recorded case
def replay(rp):
    from vf.engines import aio

    lib()
    cfg = dict(rp["config"])
    cfg["reqs"] = norm_reqs(cfg["reqs"])
    models = models_of(cfg) if cfg.get("models") else None
    base = scratch_root()
    try:
        make = maker(cfg, os.path.join(base, "c"))
        seen = {"calls": 0, "done": set(), "n": 0}
        sched = [tuple(tuple(y) if isinstance(y, list) else y for y in x) for x in rp["schedule"]]
        print(f"property C19 | {rp.get('signature')}")
        print(f"config: {public_cfg(cfg)}")
        for k, (kd, p, r, wh) in enumerate(cfg["reqs"]):
            print(f"  {req_name(k, kd, p, wh, models)}  (round {r})")

        def log(env, w):
            i = seen["n"]
            seen["n"] += 1
            label = "setup" if i == 0 else label_str(sched[i - 1]) if i - 1 < len(sched) else "?"
            new_calls = w.calls[seen["calls"]:]
            seen["calls"] = len(w.calls)
            fin = [k for k in env.results if k not in seen["done"]]
            seen["done"].update(fin)
            on_step(env, w)
            print(f"  {label:8s} -> model calls issued {new_calls!r}; returned {fin!r}; "
                  f"_req_queue={[i._req_queue for i in w.indexes]!r} "
                  f"_req_results ids={[sorted(i._req_results) for i in w.indexes]!r}; "
                  f"enabled next {[label_str(x) for x in env.enabled()]}")

        env, w, outcome = aio.run_script(make, sched, on_step=log, watchdog_s=20,
                                         granularity=cfg.get("granularity", "quiescence"), **ENV_KW)
        try:
            print(f"outcome: {outcome}")
            for k, (kd, p, _r, wh) in enumerate(cfg["reqs"]):
                obs = render(kd, env.results.get(k))
                exp = expected(kd, p, wh, mids_of(cfg))
                res = env.results.get(k)
                if cfg.get("fail") and res is not None and res[0] == "exc" and is_injected(res[1]):
                    note = "   (the failure of the model call reaches the caller: a completion)"
                elif getattr(env, "abandoned", False) and k in env.cut:
                    note = "   (given up by its caller together with the first event loop)"
                elif getattr(env, "cancelled_req", None) == k and (res is None or res[0] != "ok"):
                    note = "   (cancelled by its caller: it owes nothing)"
                else:
                    note = "" if obs == exp else "   <-- differs"
                print(f"  {req_name(k, kd, p, wh, models)}\n     expected {exp}\n     observed {obs}{note}")
            for n, e in env.background_failures():
                print(f"  background task {n} died: {type(e).__name__}: {e}")
            info = {"trace": sched, "outcome": outcome if outcome != "open" else "done", "deviations": 0}
            for sig, what in judge(cfg, env, w, info):
                print(f"  {sig}: {what}")
        finally:
            env.close()
    finally:
        shutil.rmtree(base, ignore_errors=True)
    return 0
