"""C18 - streaming output does not depend on how the LLM text is chunked.

Explicit-state search on the real `nemoguardrails.streaming.StreamingHandler`.

  state       (offset into the text, snapshot of every plain field of the handler
              [prefix, suffix, stop, current_chunk, completion, finished flag, first_token ...],
              what the consumer has been given so far [concatenation of queued items up to the
              first None/"" sentinel, sentinel seen, anything queued after the sentinel])
  transition  deliver text[i:j] (any 1..n next characters) as ONE chunk through the real coroutine
              (`push_chunk(str)` / `on_llm_new_token(tok, chunk=GenerationChunk|ChatGenerationChunk)`),
              stepped by hand: the coroutines never suspend on the unbounded queue; in pipe mode the
              `asyncio.create_task(pipe_to.push_chunk(..))` calls are collected by a tiny private loop
              object and run FIFO, as asyncio does.
  end         push_chunk("") / push_chunk(None) / on_llm_end(..) / empty last token + on_llm_end
  dedup       same offset + same snapshot => same future, so the level sets S_0..S_n of a text form the
              merged DAG of all its 2^(n-1) chunkings;   S_j = { step(s, text[i:j]) : i<j, s in S_i }.
              Texts are walked as a trie (depth first), so the S_i of a common prefix are shared.
  oracle      per (text, config, mode, end protocol): the set of terminal `delivered` strings is a
              singleton; every terminal `completion` equals its `delivered`; the delivered string is one
              of the readings of "prefix and suffix removed, cut at the first stop sequence" (all orders
              of the three operations; no demand when the text does not start with the prefix).
  binding     a deterministic subset of DAG paths, and every path used in a reported violation, is
              replayed from scratch (fresh handler, real asyncio loop, real `async for` consumer) and
              must give the same observation as the snapshot/restore search.
"""
from __future__ import annotations

import asyncio
import itertools
import os
import time
import zlib

PROP = "C18"

# ------------------------------------------------------------------ the space
PREFIXES = (None, '  "', 'Bot message: "')
SUFFIXES = (None, '"')
STOPS = ((), ('"\n',), ("\nuser ",))
MODES = ("direct", "langchain", "pipe")
ENDS = {
    "direct": ("push_empty", "push_none"),
    "langchain": ("llm_end", "empty_token+llm_end"),
    "pipe": ("llm_end", "empty_token+llm_end"),
}

# realistic shapes (every character-prefix of each of them is checked as a text of its own)
SHAPES = (
    '  "Hello there!"',
    '  "Hello there!"\nuser "Hi"\n',
    '  "He said "hi" to me."\n\nuser ask',
    ' "Hello"',
    'Bot message: "Hi"\nuser said "x"',
    'Bot message: "Hello there!"\nUser intent: ask',
    'Bot message:  "Hi"',
    'Hello there!"\n',
    '  "Line one\nLine two"\n\nuser x',
    '"\n"\nuser \nuser ',
)


def configs():
    return [(p, s, st) for p in PREFIXES for s in SUFFIXES for st in STOPS]


def alphabet(cfg):
    """Symbols the texts of a configuration are built from: a neutral letter, the quote and the
    blank (prefix / suffix characters), newline when a stop sequence is configured, and a macro
    symbol `user ` (completes the stop sequence `\\nuser `, too long to be spelled).
    With a prefix configured there are two text families: free texts (the prefix is absent or only
    partly there) and  prefix + free text."""
    prefix, suffix, stop = cfg
    syms = ["a", '"', " "]
    if stop:
        syms.append("\n")
    if any("user " in s for s in stop):
        syms.append("user ")
    return syms


def check_alphabet(syms):
    """texts <-> symbol sequences is one-to-one: a macro starts with a character that occurs nowhere else."""
    singles = {s for s in syms if len(s) == 1}
    for m in syms:
        if len(m) > 1:
            others = "".join(s for s in syms if s is not m) + m[1:]
            assert m[0] not in singles and m[0] not in others, (m, syms)


def bound(tier, k, free_with_prefix=False):
    """max number of symbols per text (after the prefix, in the prefixed family), by alphabet size."""
    if tier == "quick":
        n = {3: 9, 4: 7, 5: 6}[k]
    else:
        n = {3: 11, 4: 9, 5: 8}[k]
    return n - 2 if free_with_prefix else n


def cfg_name(cfg):
    return {"prefix": cfg[0], "suffix": cfg[1], "stop": list(cfg[2])}


def cfg_shape(cfg):
    parts = []
    if cfg[0]:
        parts.append("prefix")
    if cfg[1]:
        parts.append("suffix")
    if cfg[2]:
        parts.append("stop")
    return "+".join(parts) or "plain"


# ------------------------------------------------------------------ reference
def readings(text, cfg):
    """Every reading of 'prefix and suffix removed and cut at the first stop sequence': the three
    operations in every order.  None inside the result = the text does not start with the prefix in
    that order (nothing is demanded then)."""
    prefix, suffix, stop = cfg
    ops = []
    if prefix:
        ops.append("P")
    if suffix:
        ops.append("S")
    if stop:
        ops.append("C")
    out = set()
    for order in itertools.permutations(ops):
        t = text
        for op in order:
            if op == "P":
                if t.startswith(prefix):
                    t = t[len(prefix):]
                else:
                    t = None
                    break
            elif op == "S":
                if t.endswith(suffix):
                    t = t[: len(t) - len(suffix)]
            else:
                cuts = [t.find(s) for s in stop if s in t]
                if cuts:
                    t = t[: min(cuts)]
        out.add(t)
    return out


# ------------------------------------------------------------------ driving the real handler
class HandlerRaised(Exception):
    def __init__(self, exc, where):
        super().__init__(f"{type(exc).__name__}: {exc}")
        self.exc = exc
        self.where = where


class _Task:
    def set_name(self, *_a):
        pass

    def add_done_callback(self, *_a, **_k):
        pass


class _TinyLoop:
    """The private 'running loop' of the hand-stepped coroutines: create_task() queues the
    coroutine; the driver runs the queue FIFO to completion (what asyncio does with tasks
    created by a coroutine that itself never suspends)."""

    def __init__(self):
        self.ready = []

    def create_task(self, coro, **_kw):
        self.ready.append(coro)
        return _Task()

    def get_debug(self):
        return False

    def is_closed(self):
        return False

    def is_running(self):
        return True


def _step(coro):
    try:
        while True:
            y = coro.send(None)
            if y is not None:
                coro.close()
                raise RuntimeError(
                    "HARNESS: handler coroutine suspended on a future - the hand-stepped model does not apply"
                )
            # bare yield (sleep(0)): nothing else is runnable before it, go on
    except StopIteration:
        return


_LIB = None


def lib():
    global _LIB
    if _LIB is None:
        from langchain.schema.messages import AIMessageChunk
        from langchain.schema.output import ChatGenerationChunk, GenerationChunk, LLMResult

        from nemoguardrails.streaming import StreamingHandler

        _LIB = {
            "SH": StreamingHandler,
            "GC": GenerationChunk,
            "CGC": ChatGenerationChunk,
            "AIC": AIMessageChunk,
            "RES": LLMResult(generations=[]),
        }
    return _LIB


_EV = "\x00ev"
_LS = "\x00ls"
_SKIP = ("uid", "queue", "pipe_to")


class Rig:
    """One or two real StreamingHandler objects whose plain fields are saved / restored around every
    single call, so any reachable handler state can be continued with any next chunk."""

    def __init__(self, cfg, mode):
        L = lib()
        self.cfg = cfg
        self.mode = mode
        self.loop = _TinyLoop()
        self.h = L["SH"]()
        self.outer = None
        if mode == "pipe":
            self.outer = L["SH"]()
            self.h.set_pipe_to(self.outer)
        self._chunks = {}
        self._nkeys = None
        self.calls = 0

    # ---- snapshots
    def _snap(self, h):
        out = []
        for k, v in sorted(h.__dict__.items()):
            if k in _SKIP:
                continue
            tv = type(v)
            if tv is str or v is None or tv is bool or tv is int:
                out.append((k, v))
            elif tv is list or tv is tuple:
                out.append((k, (_LS, tv is list, tuple(v))))
            elif isinstance(v, asyncio.Event):
                out.append((k, (_EV, v.is_set())))
            else:
                raise RuntimeError(f"HARNESS: handler field {k!r} of type {tv.__name__} cannot be snapshotted")
        return tuple(out)

    def _restore(self, h, snap):
        d = h.__dict__
        if len(d) != len(snap) + len(_SKIP):
            keep = {k for k, _ in snap}
            for k in list(d):
                if k not in keep and k not in _SKIP:
                    del d[k]
        for k, v in snap:
            if type(v) is tuple:
                if v[0] is _EV or v[0] == _EV:
                    ev = d.get(k)
                    if not isinstance(ev, asyncio.Event):
                        ev = d[k] = asyncio.Event()
                    if v[1]:
                        ev.set()
                    else:
                        ev.clear()
                else:
                    d[k] = list(v[2]) if v[1] else tuple(v[2])
            else:
                d[k] = v

    @staticmethod
    def _drain(h):
        q = h.queue
        items = []
        while not q.empty():
            items.append(q.get_nowait())
        return items

    def _pack(self, delivered, ended, late):
        target = self.outer if self.outer is not None else self.h
        if self.outer is not None:
            self._drain(self.h)
        for it in self._drain(target):
            if ended:
                if it is not None and it != "":
                    late = True
            elif it is None or it == "":
                ended = True
            else:
                delivered += it if isinstance(it, str) else repr(it)
        if self.outer is not None:
            return (self._snap(self.h), delivered, ended, late, self._snap(self.outer))
        return (self._snap(self.h), delivered, ended, late)

    def _load(self, state):
        self._restore(self.h, state[0])
        if self.outer is not None:
            self._restore(self.outer, state[4])
            self.h.pipe_to = self.outer

    def _run(self, coro, where):
        from asyncio import events

        self.calls += 1
        loop = self.loop
        loop.ready.clear()
        events._set_running_loop(loop)
        try:
            _step(coro)
            while loop.ready:
                _step(loop.ready.pop(0))
        except RuntimeError as e:
            if str(e).startswith("HARNESS"):
                raise
            raise HandlerRaised(e, where)
        except Exception as e:  # the implementation raised: that is an observation, not a harness error
            raise HandlerRaised(e, where)
        finally:
            events._set_running_loop(None)
            for c in loop.ready:
                c.close()
            loop.ready.clear()

    # ---- the protocol
    def _token(self, text):
        c = self._chunks.get(text)
        if c is None:
            L = lib()
            if self.mode == "pipe":
                c = L["CGC"](message=L["AIC"](content=text))
            else:
                c = L["GC"](text=text)
            self._chunks[text] = c
        return c

    def _deliver(self, chunk):
        if self.mode == "direct":
            return self.h.push_chunk(chunk)
        return self.h.on_llm_new_token(chunk, chunk=self._token(chunk), run_id=None)

    def initial_states(self):
        """{state: lead}; lead = chunks delivered before the first character (an empty first token,
        which LangChain chat models emit and the handler documents to ignore)."""
        L = lib()
        prefix, suffix, stop = self.cfg
        fresh = L["SH"]()
        fresh.set_pattern(prefix=prefix, suffix=suffix)
        fresh.stop = list(stop)
        base = self._snap(fresh)
        init = (base, "", False, False)
        if self.outer is not None:
            init = init + (self._snap(L["SH"]()),)
        out = {init: ()}
        if self.mode != "direct":
            self._load(init)
            self._run(self._deliver(""), "on_llm_new_token")
            s = self._pack("", False, False)
            out.setdefault(s, ("",))
        return out

    def step(self, state, chunk):
        self._load(state)
        self._run(self._deliver(chunk), "push_chunk" if self.mode == "direct" else "on_llm_new_token")
        return self._pack(state[1], state[2], state[3])

    def finish(self, state, end):
        """-> outcome (delivered, completion, ended, late[, outer completion])"""
        self._load(state)
        if end == "push_empty":
            self._run(self.h.push_chunk(""), "push_chunk('')")
        elif end == "push_none":
            self._run(self.h.push_chunk(None), "push_chunk(None)")
        else:
            if end == "empty_token+llm_end":
                self._run(self._deliver(""), "on_llm_new_token('')")
            self._run(self.h.on_llm_end(lib()["RES"], run_id=None), "on_llm_end")
        s = self._pack(state[1], state[2], state[3])
        comp = dict(s[0]).get("completion")
        if self.outer is not None:
            return (s[1], comp, s[2], s[3], dict(s[4]).get("completion"))
        return (s[1], comp, s[2], s[3])


# ------------------------------------------------------------------ from-scratch replay on a real loop
async def _real(cfg, mode, chunks, end):
    L = lib()
    prefix, suffix, stop = cfg
    h = L["SH"]()
    h.set_pattern(prefix=prefix, suffix=suffix)
    h.stop = list(stop)
    target = h
    if mode == "pipe":
        target = L["SH"]()
        h.set_pipe_to(target)
    got = []

    async def consume():
        async for ch in target:
            got.append(ch)

    consumer = asyncio.create_task(consume())
    await asyncio.sleep(0)

    def token(t):
        if mode == "pipe":
            return L["CGC"](message=L["AIC"](content=t))
        return L["GC"](text=t)

    async def deliver(t):
        if mode == "direct":
            await h.push_chunk(t)
        else:
            await h.on_llm_new_token(t, chunk=token(t), run_id=None)

    for c in chunks:
        await deliver(c)
    if end == "push_empty":
        await h.push_chunk("")
    elif end == "push_none":
        await h.push_chunk(None)
    else:
        if end == "empty_token+llm_end":
            await deliver("")
        await h.on_llm_end(L["RES"], run_id=None)
    # settle: piped tasks and the consumer run until nothing is runnable any more
    me = asyncio.current_task()
    for _ in range(10 * (len(chunks) + 4)):
        before = (len(got), consumer.done())
        for _ in range(3):
            await asyncio.sleep(0)
        others = [t for t in asyncio.all_tasks() if t is not me and t is not consumer and not t.done()]
        if not others and before == (len(got), consumer.done()):
            break
    ended = consumer.done()
    if not ended:
        consumer.cancel()
        try:
            await consumer
        except asyncio.CancelledError:
            pass
    elif consumer.exception() is not None:
        raise consumer.exception()
    leftover = []
    while not target.queue.empty():
        leftover.append(target.queue.get_nowait())
    return {
        "delivered": "".join(x if isinstance(x, str) else repr(x) for x in got),
        "delivered_chunks": got,
        "completion": h.completion,
        "ended": ended,
        "late": any(x is not None and x != "" for x in leftover),
        "outer_completion": target.completion if mode == "pipe" else None,
    }


_RLOOP = None


def run_real(cfg, mode, chunks, end):
    global _RLOOP
    if _RLOOP is None or _RLOOP.is_closed():
        _RLOOP = asyncio.new_event_loop()
    return _RLOOP.run_until_complete(_real(tuple(cfg), mode, list(chunks), end))


def outcome_of_real(r, mode):
    o = (r["delivered"], r["completion"], r["ended"], r["late"])
    if mode == "pipe":
        o = o + (r["outer_completion"],)
    return o


# ------------------------------------------------------------------ classification of a failure
def _diff(got, want):
    """how `got` deviates from `want` (both strings)"""
    if got == want:
        return "same"
    if got.startswith(want):
        return "extra-tail"
    if want.startswith(got):
        return "tail-lost"
    if got.endswith(want):
        return "extra-head"
    if want.endswith(got):
        return "head-lost"
    return "differs"


def landmarks(text, cfg):
    """positions the chunk boundaries are described against"""
    prefix, suffix, stop = cfg
    lm = {}
    body0 = 0
    if prefix and text.startswith(prefix):
        lm["pe"] = body0 = len(prefix)
    cut = len(text)
    if stop:
        cuts = [text.find(s, 0) for s in stop if s in text]
        # the stop sequence is looked for in the text after the prefix (what the handler accumulates)
        cuts_b = [(text.find(s, body0), len(s)) for s in stop if text.find(s, body0) >= 0]
        if cuts_b:
            st, ln = min(cuts_b)
            lm["st"] = st
            lm["se"] = st + ln
            cut = st
        del cuts
    if suffix and cut - len(suffix) >= body0 and text[:cut].endswith(suffix):
        lm["sx"] = cut - len(suffix)
    lm["cut"] = cut
    return lm


def edge_bits(i, j, lm):
    """bitmask of chunk-shape facts for the chunk text[i:j]"""
    b = 0
    pe = lm.get("pe")
    sx = lm.get("sx")
    st = lm.get("st")
    se = lm.get("se")
    if pe is not None and i < pe:
        if j > pe:
            b |= 1  # A: the chunk that completes the prefix also carries later characters
        if sx is not None and j > sx:
            b |= 2  # B: ... including the closing suffix
    if sx is not None and i <= sx < j and j > sx + 1:
        b |= 4  # C: the closing suffix is followed by more characters in the same chunk
    if st is not None:
        if i <= st and j >= se:
            b |= 8  # D: a whole stop sequence inside one chunk
        if st < j < se:
            b |= 16  # E: a chunk boundary inside the stop sequence
        if j > se and i < se:
            b |= 32  # F: characters after the stop sequence in the chunk that completes it
        if i < st < j:
            b |= 64  # G: characters before the stop sequence in the same chunk as its start
    return b


BIT_NAMES = (
    (2, "suffix-in-chunk-completing-prefix"),
    (1, "body-in-chunk-completing-prefix"),
    (4, "suffix-followed-in-same-chunk"),
    (8, "stop-inside-one-chunk"),
    (16, "stop-split-over-chunks"),
    (32, "text-after-stop-in-chunk-completing-stop"),
    (64, "text-before-stop-in-chunk-starting-stop"),
)


def path_bits(chunks, text, cfg):
    lm = landmarks(text, cfg)
    pos = 0
    bits = 0
    for c in chunks:
        if c == "":
            continue
        bits |= edge_bits(pos, pos + len(c), lm)
        pos += len(c)
    return bits


# ------------------------------------------------------------------ explore one sub-trie
def _witness(stack, text, j, state):
    """a concrete chunk list reaching `state` at offset j (first one found, deterministic)"""
    chunks = []
    while True:
        back = stack[j][state]
        if j == 0:
            return list(back) + chunks[::-1]
        i, prev = back
        chunks.append(text[i:j])
        j, state = i, prev


def explore(task):
    cfg, mode, lead, root, nmax, own_from, val_mod = task
    rig = Rig(cfg, mode)
    syms = alphabet(cfg)
    ends = ENDS[mode]
    counts = {
        "states": 0, "transitions": 0, "terminals": 0, "texts": 0, "groups": 0,
        "groups_outcome_merged_from_many_states": 0, "groups_divergent": 0,
        "chunkings_represented": 0, "max_states_per_offset": 0, "max_text_len": 0,
        "traces_validated_against_impl": 0, "texts_with_unique_reading": 0,
        "texts_prefix_absent": 0, "texts_ambiguous_reading": 0, "handler_exceptions": 0,
        "groups_without_end_sentinel": 0,
    }
    viol = {}
    samples = []
    # stack[j] = {state at offset j: back pointer (i, state at offset i)}; stack[0] = {initial state: lead chunks}
    textbox = [""]
    stack = [rig.initial_states()]

    def record(sig, what, rp, size):
        cur = viol.get(sig)
        if cur is None or size < cur[0]:
            n = cur[3] if cur else 0
            viol[sig] = [size, what, rp, n]
        viol[sig][3] += 1

    def push_char(ch, own):
        text = textbox[0] = textbox[0] + ch
        j = len(text)
        level = {}
        ntr = 0
        for i in range(j):
            c = text[i:j]
            for s in stack[i]:
                try:
                    s2 = rig.step(s, c)
                except HandlerRaised as e:
                    counts["handler_exceptions"] += 1
                    if own:
                        chunks = _witness(stack, text, i, s) + [c]
                        record(
                            f"exception:{type(e.exc).__name__}:{cfg_shape(cfg)}",
                            f"{e.where} raised {e} while delivering {chunks!r} ({cfg_name(cfg)}, mode {mode})",
                            {"config": cfg_name(cfg), "mode": mode, "text": text, "end": None,
                             "chunkings": [chunks], "expect": "no exception"},
                            len(text),
                        )
                    continue
                ntr += 1
                if s2 not in level:
                    level[s2] = (i, s)
        stack.append(level)
        if own:
            counts["transitions"] += ntr
            counts["states"] += len(level)
            if len(level) > counts["max_states_per_offset"]:
                counts["max_states_per_offset"] = len(level)
            check(j)

    def pop_to(n):
        del stack[n + 1:]
        textbox[0] = textbox[0][:n]

    def check(j):
        text = textbox[0]
        counts["texts"] += 1
        counts["chunkings_represented"] += (1 << max(0, j - 1)) * len(stack[0])
        if j > counts["max_text_len"]:
            counts["max_text_len"] = j
        rd = readings(text, cfg)
        if None in rd:
            counts["texts_prefix_absent"] += 1
        elif len(rd) == 1:
            counts["texts_with_unique_reading"] += 1
        else:
            counts["texts_ambiguous_reading"] += 1
        validate = val_mod and (zlib.crc32(repr((text, cfg, mode)).encode()) % val_mod == 0)
        for end in ends:
            outcomes = {}
            nst = 0
            for s in stack[j]:
                try:
                    o = rig.finish(s, end)
                except HandlerRaised as e:
                    counts["handler_exceptions"] += 1
                    chunks = _witness(stack, text, j, s)
                    record(
                        f"exception:{type(e.exc).__name__}:{cfg_shape(cfg)}",
                        f"{e.where} raised {e} after {chunks!r} ({cfg_name(cfg)}, mode {mode})",
                        {"config": cfg_name(cfg), "mode": mode, "text": text, "end": end,
                         "chunkings": [chunks], "expect": "no exception"},
                        len(text),
                    )
                    continue
                nst += 1
                if o not in outcomes:
                    outcomes[o] = s
            counts["terminals"] += nst
            counts["groups"] += 1
            if nst > len(outcomes):
                counts["groups_outcome_merged_from_many_states"] += 1
            if any(not o[2] for o in outcomes):
                counts["groups_without_end_sentinel"] += 1
            bad = judge(text, cfg, mode, end, outcomes, rd)
            if validate or bad:
                for o, s in outcomes.items():
                    chunks = _witness(stack, text, j, s)
                    r = run_real(cfg, mode, chunks, end)
                    if outcome_of_real(r, mode) != o:
                        raise RuntimeError(
                            f"HARNESS: snapshot/restore search and from-scratch replay disagree for {cfg_name(cfg)} "
                            f"mode={mode} end={end} chunks={chunks!r}: search {o!r} replay {outcome_of_real(r, mode)!r}"
                        )
                    counts["traces_validated_against_impl"] += 1
                    if validate and len(samples) < 3 and j >= 4 and len(chunks) >= 2:
                        samples.append({"config": cfg_name(cfg), "mode": mode, "end": end, "text": text,
                                        "chunks": chunks, "delivered": o[0], "completion": o[1],
                                        "states_per_offset": [len(fr) for fr in stack]})
            for sig, what, rp in bad:
                record(sig, what, rp, len(text))

    def judge(text, cfg, mode, end, outcomes, rd):
        out = []
        if not outcomes:
            return out
        j = len(text)
        base = {"config": cfg_name(cfg), "mode": mode, "text": text, "end": end}
        shape = cfg_shape(cfg)
        by_deliv = {}
        for o, s in outcomes.items():
            by_deliv.setdefault(o[0], (o, s))
        want = None
        if None not in rd and len(rd) == 1:
            want = next(iter(rd))
        if len(by_deliv) > 1:
            counts["groups_divergent"] += 1
            # the expected string: the unique reading, else the delivered string closest to a reading,
            # else the most frequent one
            if want is not None and want in by_deliv:
                exp = want
            else:
                cands = sorted(d for d in by_deliv if d in rd)
                exp = cands[0] if cands else sorted(by_deliv)[0]
            for d, (o, s) in sorted(by_deliv.items()):
                if d == exp:
                    continue
                chunks_bad = _witness(stack, text, j, s)
                chunks_ok = _witness(stack, text, j, by_deliv[exp][1])
                trig = trigger(text, cfg, chunks_bad, chunks_ok)
                sig = f"chunking:{shape}:{_diff(d, exp)}:{trig}"
                out.append((
                    sig,
                    f"text {text!r} with {cfg_name(cfg)} ({mode}, end={end}): chunks {chunks_ok!r} deliver {exp!r} "
                    f"but chunks {chunks_bad!r} deliver {d!r}",
                    dict(base, chunkings=[chunks_ok, chunks_bad], delivered=[exp, d],
                         expect="the same delivered string for every chunking", readings=sorted(x for x in rd if x is not None)),
                ))
        else:
            d = next(iter(by_deliv))
            if None not in rd and d not in rd:
                o, s = by_deliv[d]
                chunks = _witness(stack, text, j, s)
                near = sorted(rd, key=lambda r: (_diff(d, r), r))[0]
                sig = f"reference:{shape}:{_diff(d, near)}"
                out.append((
                    sig,
                    f"text {text!r} with {cfg_name(cfg)} ({mode}, end={end}): every chunking delivers {d!r}, "
                    f"no reading of the statement gives that (readings: {sorted(rd)!r})",
                    dict(base, chunkings=[chunks], delivered=[d], expect=f"one of {sorted(rd)!r}", readings=sorted(rd)),
                ))
        for o, s in outcomes.items():
            if o[1] != o[0]:
                chunks = _witness(stack, text, j, s)
                bits = path_bits(chunks, text, cfg)
                sig = f"completion:{shape}:{_diff(o[1] if isinstance(o[1], str) else repr(o[1]), o[0])}:{bits_name(bits)}"
                out.append((
                    sig,
                    f"text {text!r} with {cfg_name(cfg)} ({mode}, end={end}): chunks {chunks!r} deliver {o[0]!r} "
                    f"but completion is {o[1]!r}",
                    dict(base, chunkings=[chunks], delivered=[o[0]], completion=[o[1]],
                         expect="completion == concatenation of delivered chunks"),
                ))
            if len(o) > 4 and o[4] != o[0]:
                chunks = _witness(stack, text, j, s)
                out.append((
                    f"completion-piped:{shape}:{_diff(o[4] if isinstance(o[4], str) else repr(o[4]), o[0])}",
                    f"text {text!r} with {cfg_name(cfg)} (pipe, end={end}): chunks {chunks!r}: the receiving handler "
                    f"delivered {o[0]!r} but its completion is {o[4]!r}",
                    dict(base, chunkings=[chunks], delivered=[o[0]], completion=[o[4]],
                         expect="completion of the receiving handler == concatenation of delivered chunks"),
                ))
        return out

    # ---- walk
    if root is None:
        # a realistic shape: one path of the trie, every non-empty character-prefix is a text
        for ch in lead:
            push_char(ch, True)
    else:
        check_alphabet(syms)
        prefix = cfg[0]
        alpha_chars = set("".join(syms))
        if not lead and not root:
            check(0)
        # the lead (= the configured prefix, in the prefixed family): its proper character-prefixes are
        # texts of this family only when they cannot be spelled with the alphabet; the lead itself
        # belongs to the task without root symbols
        for n, ch in enumerate(lead):
            part = lead[: n + 1]
            if n + 1 < len(lead):
                own = (not root) and any(c not in alpha_chars for c in part)
            else:
                own = not root
            push_char(ch, own)

        def rec(nsym):
            if nsym >= nmax:
                return
            for y in syms:
                mark = len(textbox[0])
                if not lead and prefix and textbox[0] + y == prefix:
                    continue  # prefix + anything is the other family
                for ch in y:
                    push_char(ch, True)
                rec(nsym + 1)
                pop_to(mark)

        pruned = False
        for k, y in enumerate(root):
            if not lead and prefix and textbox[0] + y == prefix:
                pruned = True
                break
            for ch in y:
                push_char(ch, k >= own_from)
        if not pruned:
            rec(len(root))
    return {"counts": counts, "violations": [
        {"signature": sig, "what": v[1], "replay": v[2], "size": v[0], "n": v[3]} for sig, v in viol.items()
    ], "samples": samples, "calls": rig.calls}


def bits_name(bits):
    names = [n for b, n in BIT_NAMES if bits & b]
    return "+".join(names) or "any-chunking"


def trigger(text, cfg, chunks_bad, chunks_ok):
    """chunk-shape facts present in the deviating chunking and absent from the conforming one"""
    b = path_bits(chunks_bad, text, cfg)
    g = path_bits(chunks_ok, text, cfg)
    only = b & ~g
    if only:
        return bits_name(only)
    missing = g & ~b
    if missing:
        return "without-" + bits_name(missing)
    return "other-boundaries"


# ------------------------------------------------------------------ tasks / run
def tasks(tier):
    """(config, mode, lead, root symbols, max symbols, first owned root symbol, validation modulus)"""
    out = []
    val_mod = 23 if tier == "quick" else 307
    split = 2 if tier == "quick" else 3
    for cfg in configs():
        syms = alphabet(cfg)
        fams = [("", bound(tier, len(syms), free_with_prefix=bool(cfg[0])))]
        if cfg[0]:
            fams.append((cfg[0], bound(tier, len(syms))))
        for mode in MODES:
            for lead, n in fams:
                sp = min(split, n)
                # texts with fewer than `sp` symbols after the lead
                out.append((cfg, mode, lead, (), sp - 1, 0, val_mod))
                for root in itertools.product(syms, repeat=sp):
                    out.append((cfg, mode, lead, tuple(root), n, sp - 1, val_mod))
            for sh in SHAPES:
                out.append((cfg, mode, sh, None, 0, 0, 3))
    return out


def run(rep, tier):
    from vf import par

    lib()
    ts = tasks(tier)
    seed = rep.seed
    if seed:
        import random

        random.Random(seed).shuffle(ts)  # order of work only
    budget = 50 if tier == "quick" else 17 * 60
    deadline = time.time() + budget
    done = 0
    by_sig = {}
    for res in par.pmap(explore, ts, chunksize=4, deadline=deadline):
        done += 1
        rep.merge_counts(res["counts"])
        rep.add("handler_calls", res["calls"])
        for s in res["samples"]:
            rep.sample(s)
        for v in res["violations"]:
            cur = by_sig.get(v["signature"])
            if cur is None or (v["size"], repr(v["replay"])) < (cur["size"], repr(cur["replay"])):
                v["n"] += cur["n"] if cur else 0
                by_sig[v["signature"]] = v
            else:
                cur["n"] += v["n"]
    for sig in sorted(by_sig):
        v = by_sig[sig]
        rep.violation(sig, v["what"] + f"  [{v['n']} (text,end) groups in this class]", v["replay"])
    cfgs = configs()
    rep.set("configs", len(cfgs))
    rep.set("modes", len(MODES))
    rep.set("tasks_planned", len(ts))
    rep.set("tasks_done", done)
    rep.set("violation_classes", len(by_sig))
    rep.set("bounds", {
        "symbols_per_text_by_alphabet_size": {str(k): bound(tier, k) for k in (3, 4, 5)},
        "symbols_per_free_text_when_a_prefix_is_configured": {str(k): bound(tier, k, True) for k in (3, 4, 5)},
        "alphabets": {cfg_shape(c) + "|" + repr(c[0]) + "|" + repr(c[2]): alphabet(c) for c in cfgs},
        "realistic_shapes": list(SHAPES),
        "end_protocols": {m: list(e) for m, e in ENDS.items()},
    })
    rep.set("distinct_outcome_sets", rep.cov.get("groups_divergent", 0))
    rep.set("exhaustive", done == len(ts))
    if done < len(ts):
        rep.set("cap_hit", f"time budget {budget}s: {done}/{len(ts)} sub-tries (config x mode x first symbols) fully explored")
    rep.assumptions += [
        "texts: every character-prefix of every sequence of <= n symbols over the per-config alphabet (bounds.alphabets; "
        "n by alphabet size in bounds.symbols_per_text_by_alphabet_size) plus every character-prefix of the realistic shapes; "
        "chunkings: ALL splits of each text into non-empty chunks (merged DAG), plus an optional empty first token in the LangChain modes",
        "pattern / stop configured before the first chunk (set_pattern + .stop as in tests/test_streaming_handler.py); "
        "the mid-stream reconfiguration done by generation.py (buffering, then set_pattern, then stop) is not modelled",
        "queued items are observed only the way __anext__ hands them out: concatenation up to the first None/'' sentinel; the handler never reads its own queue",
        "handler coroutines do not suspend (unbounded queue); create_task'ed pipe pushes run FIFO after the creating coroutine; "
        "bound to the implementation by from-scratch replays on a real asyncio loop with an `async for` consumer",
        "enable_print / buffering (enable_buffer, wait_top_k_nonempty_lines) are off; whether the stream terminates is counted, not demanded",
    ]


# ------------------------------------------------------------------ replay of one recorded case
def replay(rp):
    lib()
    c = rp["config"]
    cfg = (c["prefix"], c["suffix"], tuple(c["stop"]))
    print(f"property C18 | {rp.get('signature')}")
    print(f"config {c}  mode={rp['mode']}  end={rp.get('end')}  text={rp['text']!r}")
    print(f"expected: {rp.get('expect')}")
    for chunks in rp["chunkings"]:
        try:
            r = run_real(cfg, rp["mode"], chunks, rp.get("end") or "push_empty")
        except Exception as e:  # noqa
            print(f"  chunks {chunks!r}: raised {type(e).__name__}: {e}")
            continue
        print(f"  chunks {chunks!r}\n     delivered chunks {r['delivered_chunks']!r} = {r['delivered']!r}\n"
              f"     completion {r['completion']!r}  consumer finished={r['ended']}"
              + (f"  receiving handler completion {r['outer_completion']!r}" if rp["mode"] == "pipe" else ""))
    return 0
