"""C18 - streaming output does not depend on how the LLM text is chunked.

Explicit-state search on the real `nemoguardrails.streaming.StreamingHandler`.

  state       (offset into the text,
               snapshot of every plain field of the handler [prefix, suffix, stop, current_chunk,
               completion, finished flag, first_token, buffer ...],
               what the consumer has been given so far [concatenation of the queued items up to the
               first None/"" sentinel, sentinel seen, anything queued after the sentinel],
               two explanatory monitor labels [where completion first differed from the delivered
               text; where text that may still have to be withheld was first delivered])
  transition  deliver text[i:j] (any 1..n next characters) as ONE chunk through the real coroutine
              (`push_chunk(str)` / `on_llm_new_token(tok, chunk=GenerationChunk|ChatGenerationChunk)`),
              stepped by hand: the coroutines never suspend on the unbounded queue; in pipe mode the
              `asyncio.create_task(pipe_to.push_chunk(..))` calls are collected by a tiny private loop
              object and run FIFO, as asyncio does.
  end         push_chunk("") / push_chunk(None) / on_llm_end(..) / empty last token + on_llm_end
  dedup       same offset + same snapshot => same future, so the level sets S_0..S_n of a text form the
              merged DAG of all its 2^(n-1) chunkings;   S_j = { step(s, text[i:j]) : i<j, s in S_i }.
              Texts are walked as a trie (depth first), so the S_i of a common prefix are shared.
  oracle      per (text, config, mode, end protocol): the set of terminal `delivered` strings is a
              singleton; every terminal `completion` equals its `delivered`; the delivered string is one
              of the readings of "prefix and suffix removed, cut at the first stop sequence" (the three
              operations in every order; removing a prefix / suffix that is not there changes nothing, so
              a text that never shows the configured prefix has a reference too; with several stop
              sequences "first" = the occurrence that starts first or the one that is complete first).
              Whether the stream is terminated by a sentinel is counted, not demanded.
  space       18 configs (prefix in {-, '  "', 'Bot message: "'} x suffix in {-, '"'} x stop in {[], ['"\n'],
              ['\nuser ']}) x 3 modes (direct push_chunk / LangChain callbacks / LangChain callbacks on a
              handler piped into a second one) x 2 end protocols each; texts = every character-prefix of
              every sequence of <= n symbols over {a, ", blank[, newline][, 'user ']}, free and behind the
              configured prefix (n: see bound()), plus every character-prefix of the realistic SHAPES.
              Stop-list family (sl_configs): every ordered list of one or two distinct stop sequences over
              {x, y} (<= 3 characters each, <= 4 [thorough: 5] together; up to exchanging x and y) - so
              sequences that overlap themselves (xx, xxy), each other (xy / yx), contain each other
              (x / xy), in both list orders - x suffix in {-, '"', 'y' (a suffix the stop sequences can
              start with / contain)} x prefix in {-, '>'} x the 3 modes x 2 end protocols; texts = every
              string of <= n characters over {a, x, y[, "]} (n: see sl_bound()), free and behind the prefix.
  classes     a violation's signature is  kind : where-it-first-went-wrong ; the second part comes from two
              monitors that ride along in the state (first call after which completion != delivered;
              first call that delivered text the handler might still have had to withhold) - it only
              names the class, it never decides.
  binding     a deterministic subset of DAG paths, and every path shown in a reported violation, is
              replayed from scratch (fresh handler, real asyncio loop, real `async for` consumer) and
              must give the same observation as the snapshot/restore search (else: harness error).
  single-call the streaming path of `rails.dialog.single_call` (actions/llm/generation.py: a private handler in
              buffering mode, `wait_top_k_nonempty_lines`, then pattern / pipe / stop installed and the buffer
              flushed) is covered by three more families, run first (run_single_call_families):
                mode "handover" / "handover:sep" (c18_handover.py): the same explicit-state search over all
                  chunkings of  head (two intent lines) + body,  the hand-over performed with the operations
                  RECORDED from a real LLMRails request; signatures `handover:...`
                R1 (c18_rails.py): single streaming requests through a real LLMRails, every split of realistic
                  LLM texts into <= 3 tokens; signatures `rails:...`
                R2 (c18_rails.py): two overlapping streaming requests on one LLMRails, every interleaving of
                  arrivals and token deliveries on the virtual loop; signatures `overlap:...`
"""
from __future__ import annotations

import asyncio
import itertools
import time
import zlib

PROP = "C18"

# ------------------------------------------------------------------ the space
PREFIXES = (None, '  "', 'Bot message: "')
SUFFIXES = (None, '"')
STOPS = ((), ('"\n',), ("\nuser ",))
# "tokenonly": the LangChain callback is invoked with the token text alone (the `chunk` keyword is optional in the callback
# contract; many LLM integrations do not pass it)
MODES = ("direct", "langchain", "pipe", "tokenonly")
ENDS = {
    "direct": ("push_empty", "push_none"),
    "langchain": ("llm_end", "empty_token+llm_end"),
    "pipe": ("llm_end", "empty_token+llm_end"),
    "tokenonly": ("llm_end", "empty_token+llm_end"),
    # hand-over modes (c18_handover.py): after the end of the LLM output the caller's handler is closed with push_chunk(None)
    "handover": ("llm_end", "empty_token+llm_end"),
}

# realistic shapes (every non-empty character-prefix of each of them is checked as a text of its own)
SHAPES = (
    '  "Hello there!"',
    '  "Hello there!"\nuser "Hi"\n',
    '  "He said "hi" to me."\n\nuser ask',
    ' "Hello"',
    'Bot message: "Hi"\nuser said "x"',
    'Bot message: "Hello there!"\nUser intent: ask',
    'Bot message:  "Hi"',
    'Hello there!"\n',
    '  "Line one\nLine two"\n\nuser x',
    '"\n"\nuser \nuser ',
)


def configs():
    return [(p, s, st) for p in PREFIXES for s in SUFFIXES for st in STOPS]


# ---- the stop-list family: stop configurations with structure (several stop sequences in either list
# order; sequences that overlap themselves or each other, contain each other, start with the suffix)
SL_CHARS = "xy"
SL_PREFIXES = (None, ">")
SL_SUFFIXES = (None, '"', "y")


def sl_words(maxlen):
    return ["".join(w) for n in range(1, maxlen + 1) for w in itertools.product(SL_CHARS, repeat=n)]


def sl_stoplists(maxtotal, maxlen=3):
    """every ordered list of one or two distinct words over {x, y} (each <= maxlen characters, together
    <= maxtotal)"""
    ws = sl_words(maxlen)
    out = [(w,) for w in ws if len(w) <= maxtotal]
    out += [(v, w) for v in ws for w in ws if v != w and len(v) + len(w) <= maxtotal]
    return out


def sl_configs(tier):
    """the configurations of the stop-list family.  The text alphabet is symmetric in x and y, so of
    each pair of stop lists that exchanging x and y maps onto each other only the one whose first word
    starts with x is run - except with the suffix 'y', which breaks the symmetry."""
    out = []
    maxtotal = 4 if tier == "quick" else 5
    for stop in sl_stoplists(maxtotal):
        canonical = stop[0][0] == "x"
        for suffix in SL_SUFFIXES:
            if suffix != "y" and not canonical:
                continue
            for prefix in SL_PREFIXES:
                out.append((prefix, suffix, stop))
    return out


def is_stoplist(cfg):
    return bool(cfg[2]) and cfg[2] not in STOPS


def alphabet(cfg):
    """Symbols the texts of a configuration are built from: a neutral letter, the quote and the
    blank (prefix / suffix characters), newline when a stop sequence is configured, and the macro
    symbol `user ` (it completes the stop sequence `\\nuser `, which is too long to be spelled).
    With a prefix configured there are two text families: free texts (prefix absent or only partly
    there) and  prefix + free text."""
    prefix, suffix, stop = cfg
    if is_stoplist(cfg):
        chars = set(SL_CHARS) | set("".join(stop)) | set(suffix or "")
        assert "a" not in chars and not (set(prefix or "") & (chars | {"a"})), cfg
        return ["a"] + sorted(chars)
    syms = ["a", '"', " "]
    if stop:
        syms.append("\n")
    if any("user " in s for s in stop):
        syms.append("user ")
    return syms


def check_alphabet(syms):
    """texts <-> symbol sequences is one-to-one: a macro starts with a character that occurs nowhere else."""
    singles = {s for s in syms if len(s) == 1}
    for m in syms:
        if len(m) > 1:
            others = "".join(s for s in syms if s is not m) + m[1:]
            assert m[0] not in singles and m[0] not in others, (m, syms)


def bound(tier, k, family="free", mode="direct"):
    """max number of symbols per text, by alphabet size.  family: "free" (no prefix configured),
    "absent" (free texts while a prefix is configured), "short" / "long" (symbols after the prefix).
    The pipe mode (two handlers per state) is explored one symbol less deep."""
    if tier == "quick":
        n = {3: 8, 4: 6, 5: 5}[k]
    else:
        n = {3: 11, 4: 9, 5: 7}[k]
    return n - {"free": 0, "short": 0, "long": 1, "absent": 2}[family] - (1 if mode == "pipe" else 0)


def sl_bound(tier, cfg, family="free", mode="langchain"):
    """max number of characters per text of the stop-list family (all its symbols are single characters).
    family: "free" (no prefix configured), "lead" (characters after the prefix), "absent" (free texts while
    a prefix is configured).  One less with the suffix 'y' (twice as many stop lists: no x/y symmetry), in
    pipe mode, and - with the 4-character alphabet - in direct mode."""
    k = len(alphabet(cfg))
    if tier == "quick":
        n = {3: 6, 4: 5}[k]
    else:
        n = {3: 7, 4: 6}[k]
    n -= {"free": 0, "lead": 1, "absent": 3}[family]
    if cfg[1] == "y":
        n -= 1
    if mode == "pipe" or (mode == "direct" and k == 4):
        n -= 1
    return max(n, 1)


def families(cfg, tier, mode):
    if is_stoplist(cfg):
        if not cfg[0]:
            return [("", sl_bound(tier, cfg, "free", mode))]
        return [("", sl_bound(tier, cfg, "absent", mode)), (cfg[0], sl_bound(tier, cfg, "lead", mode))]
    k = len(alphabet(cfg))
    if not cfg[0]:
        return [("", bound(tier, k, "free", mode))]
    return [("", bound(tier, k, "absent", mode)),
            (cfg[0], bound(tier, k, "short" if len(cfg[0]) <= 3 else "long", mode))]


def cfg_name(cfg):
    return {"prefix": cfg[0], "suffix": cfg[1], "stop": list(cfg[2])}


def cfg_shape(cfg):
    parts = []
    if cfg[0]:
        parts.append("prefix")
    if cfg[1]:
        parts.append("suffix")
    if cfg[2]:
        parts.append("stop")
    return "+".join(parts) or "plain"


# ------------------------------------------------------------------ reference
def cut_points(t, stop):
    """where 'the first stop sequence' of t starts.  With one stop sequence: its first occurrence.  With
    several, two occurrences can overlap, and then 'first' has two readings: the occurrence that starts
    first, and the occurrence that is complete first (what a generation that halts at a stop sequence
    sees; when several are complete at the same character, any of them).  Both are accepted."""
    occ = [(t.find(s), t.find(s) + len(s)) for s in stop if s in t]
    if not occ:
        return set()
    first_end = min(e for _b, e in occ)
    return {min(b for b, _e in occ)} | {b for b, e in occ if e == first_end}


def readings(text, cfg):
    """Every reading of 'prefix and suffix removed and cut at the first stop sequence': the three
    operations in every order (and both readings of 'first', see cut_points).  Removing a prefix /
    suffix that is not there changes nothing: a text that does not start with the configured prefix is
    delivered with the suffix removed and cut at the first stop sequence."""
    prefix, suffix, stop = cfg
    ops = []
    if prefix and text.startswith(prefix):
        ops.append("P")
    if suffix:
        ops.append("S")
    if stop:
        ops.append("C")
    out = set()
    for order in itertools.permutations(ops):
        ts = {text}
        for op in order:
            nxt = set()
            for t in ts:
                if op == "P":
                    nxt.add(t[len(prefix):] if t.startswith(prefix) else t)
                elif op == "S":
                    nxt.add(t[: len(t) - len(suffix)] if t.endswith(suffix) else t)
                else:
                    cuts = cut_points(t, stop)
                    if cuts:
                        nxt.update(t[:c] for c in cuts)
                    else:
                        nxt.add(t)
            ts = nxt
        out |= ts
    return out


# ------------------------------------------------------------------ driving the real handler
class HandlerRaised(Exception):
    def __init__(self, exc, where):
        super().__init__(f"{type(exc).__name__}: {exc}")
        self.exc = exc
        self.where = where


class _Task:
    def set_name(self, *_a):
        pass

    def add_done_callback(self, *_a, **_k):
        pass


class _TinyLoop:
    """The private 'running loop' of the hand-stepped coroutines: create_task() queues the
    coroutine; the driver runs the queue FIFO to completion (what asyncio does with tasks
    created by a coroutine that itself never suspends)."""

    def __init__(self):
        self.ready = []

    def create_task(self, coro, **_kw):
        self.ready.append(coro)
        return _Task()

    def get_debug(self):
        return False

    def is_closed(self):
        return False

    def is_running(self):
        return True


def _step(coro):
    try:
        while True:
            y = coro.send(None)
            if y is not None:
                coro.close()
                raise RuntimeError(
                    "HARNESS: handler coroutine suspended on a future - the hand-stepped model does not apply"
                )
            # bare yield (sleep(0)): nothing else is runnable before it, go on
    except StopIteration:
        return


_LIB = None


def lib():
    global _LIB
    if _LIB is None:
        from langchain.schema.messages import AIMessageChunk
        from langchain.schema.output import ChatGenerationChunk, GenerationChunk, LLMResult

        from nemoguardrails.streaming import StreamingHandler

        _LIB = {
            "SH": StreamingHandler,
            "GC": GenerationChunk,
            "CGC": ChatGenerationChunk,
            "AIC": AIMessageChunk,
            "RES": LLMResult(generations=[]),
        }
    return _LIB


_EV = "\x00ev"
_LS = "\x00ls"
_TP = "\x00tp"
_SKIP = ("uid", "queue", "pipe_to")

# state = (snapshot, delivered, ended, late, monitor labels[, snapshot of the receiving handler])
S_SNAP, S_DELIV, S_ENDED, S_LATE, S_MON, S_OUTER = range(6)
NO_LABELS = (None, None)


class Rig:
    """One or two real StreamingHandler objects whose plain fields are saved / restored around every
    single call, so any reachable handler state can be continued with any next chunk.

    snapshot = (key-set id, value of every attribute in the handler's __dict__ except uid / queue /
    pipe_to; Events as their flag, lists as tuples).  A field of any other type is a harness error."""

    def __init__(self, cfg, mode):
        L = lib()
        self.cfg = cfg
        self.mode = mode
        self.loop = _TinyLoop()
        self.h = L["SH"]()
        self.outer = None
        if mode == "pipe":
            self.outer = L["SH"]()
            self.h.set_pipe_to(self.outer)
        self._chunks = {}
        self._keysets = []
        self._index = []
        self._nd = -1
        self._kid = -1
        self._keys = ()
        self.calls = 0

    # ---- snapshots
    def _rekey(self, d):
        keys = tuple(sorted(k for k in d if k not in _SKIP))
        if keys not in self._keysets:
            self._keysets.append(keys)
            self._index.append({k: n + 1 for n, k in enumerate(keys)})
        self._kid = self._keysets.index(keys)
        self._keys = keys
        self._nd = len(d)

    def _snap(self, h):
        d = h.__dict__
        if len(d) != self._nd:
            self._rekey(d)
        out = [self._kid]
        try:
            for k in self._keys:
                v = d[k]
                tv = type(v)
                if tv is str or v is None or tv is bool or tv is int:
                    out.append(v)
                elif tv is list:
                    out.append((_LS, tuple(v)))
                elif tv is tuple:
                    out.append((_TP, v))
                elif isinstance(v, asyncio.Event):
                    out.append((_EV, v.is_set()))
                else:
                    raise RuntimeError(f"HARNESS: handler field {k!r} of type {tv.__name__} cannot be snapshotted")
        except KeyError:
            self._rekey(d)
            return self._snap(h)
        return tuple(out)

    def _restore(self, h, snap):
        d = h.__dict__
        keys = self._keysets[snap[0]]
        if len(d) != len(keys) + len(_SKIP):
            for k in list(d):
                if k not in keys and k not in _SKIP:
                    del d[k]
        n = 1
        for k in keys:
            v = snap[n]
            n += 1
            if type(v) is tuple:
                tag = v[0]
                if tag == _EV:
                    ev = d.get(k)
                    if not isinstance(ev, asyncio.Event):
                        ev = d[k] = asyncio.Event()
                    if v[1]:
                        ev.set()
                    else:
                        ev.clear()
                elif tag == _LS:
                    d[k] = list(v[1])
                else:
                    d[k] = v[1]
            else:
                d[k] = v

    def field(self, snap, name):
        pos = self._index[snap[0]].get(name)
        return None if pos is None else snap[pos]

    @staticmethod
    def _drain(h):
        q = h.queue
        items = []
        while not q.empty():
            items.append(q.get_nowait())
        return items

    def _load(self, state):
        self._restore(self.h, state[S_SNAP])
        if self.outer is not None:
            self._restore(self.outer, state[S_OUTER])
            self.h.pipe_to = self.outer

    def _run(self, coro, where):
        from asyncio import events

        self.calls += 1
        loop = self.loop
        events._set_running_loop(loop)
        try:
            _step(coro)
            while loop.ready:
                _step(loop.ready.pop(0))
        except RuntimeError as e:
            if str(e).startswith("HARNESS"):
                raise
            raise HandlerRaised(e, where)
        except Exception as e:  # the implementation raised: that is an observation, not a harness error
            raise HandlerRaised(e, where)
        finally:
            events._set_running_loop(None)
            for c in loop.ready:
                c.close()
            del loop.ready[:]

    def _after(self, pre, chunk, is_end):
        """collect what the call queued, snapshot, update the monitor labels"""
        delivered, ended, late = pre[S_DELIV], pre[S_ENDED], pre[S_LATE]
        target = self.outer if self.outer is not None else self.h
        if self.outer is not None:
            self._drain(self.h)
        for it in self._drain(target):
            if ended:
                if it is not None and it != "":
                    late = True
            elif it is None or it == "":
                ended = True
            else:
                delivered += it if isinstance(it, str) else repr(it)
        snap = self._snap(self.h)
        mon = pre[S_MON]
        if mon[0] is None or mon[1] is None:
            mon = self._monitor(pre, snap, delivered, chunk, is_end, mon)
        if self.outer is not None:
            return (snap, delivered, ended, late, mon, self._snap(self.outer))
        return (snap, delivered, ended, late, mon)

    def _site(self, psnap, is_end):
        """which part of the handler the call went through (from the state before the call)"""
        f = self.field
        if is_end:
            return "end-with-prefix-pending" if f(psnap, "prefix") else ("end-flush" if f(psnap, "current_chunk") else "end")
        if f(psnap, "prefix"):
            return "prefix-branch"
        if f(psnap, "suffix") or self.cfg[2]:
            return "pattern-branch"
        return "plain-branch"

    def _monitor(self, pre, snap, delivered, chunk, is_end, mon):
        """Explanatory only (never decides a violation): names the call after which
          [0] completion first differed from the delivered text, and
          [1] text was first delivered that the handler may still have to withhold (it ends with the
              suffix or with the beginning of a stop sequence, or contains a stop sequence)."""
        l1, l2 = mon
        f = self.field
        psnap = pre[S_SNAP]
        suffix, stop = self.cfg[1], self.cfg[2]
        site = self._site(psnap, is_end)
        if l1 is None:
            comp = f(snap, "completion")
            if comp != delivered:
                if not isinstance(comp, str):
                    how = "completion-not-a-string"
                elif comp.startswith(delivered):
                    how = "completion-ahead"
                elif delivered.startswith(comp):
                    how = "completion-behind"
                else:
                    how = "completion-differs"
                seen = (f(psnap, "completion") or "") + (f(psnap, "current_chunk") or "") + (chunk or "")
                hit = any(st in seen for st in stop)
                l1 = f"{how}@stop-hit" if hit else f"{how}@{site}"
        fin = f(snap, "streaming_finished_event")
        if (l2 is None and not is_end and len(delivered) > len(pre[S_DELIV])
                and not (type(fin) is tuple and fin[1])):  # what a call that finished the stream delivered is final
            what = None
            if any(st in delivered for st in stop):
                what = "stop-sequence-delivered"
            elif suffix and delivered.endswith(suffix):
                what = "suffix-delivered-early"
            elif any(delivered.endswith(st[:n]) for st in stop for n in range(1, len(st))):
                what = "stop-fragment-delivered-early"
            if what:
                l2 = f"{what}@{site}"
        return (l1, l2)

    # ---- the protocol
    def _token(self, text):
        c = self._chunks.get(text)
        if c is None:
            L = lib()
            if self.mode == "pipe":
                c = L["CGC"](message=L["AIC"](content=text))
            else:
                c = L["GC"](text=text)
            self._chunks[text] = c
        return c

    def _deliver(self, chunk):
        if self.mode == "direct":
            return self.h.push_chunk(chunk)
        if self.mode == "tokenonly":
            return self.h.on_llm_new_token(chunk, run_id=None)
        return self.h.on_llm_new_token(chunk, chunk=self._token(chunk), run_id=None)

    def initial_states(self):
        """{state: lead}; lead = chunks delivered before the first character (an empty first token,
        which LangChain chat models emit and the handler documents to ignore)."""
        L = lib()
        prefix, suffix, stop = self.cfg
        fresh = L["SH"]()
        fresh.set_pattern(prefix=prefix, suffix=suffix)
        fresh.stop = list(stop)
        init = (self._snap(fresh), "", False, False, NO_LABELS)
        if self.outer is not None:
            init = init + (self._snap(L["SH"]()),)
        out = {init: ()}
        if self.mode != "direct":
            self._load(init)
            self._run(self._deliver(""), "on_llm_new_token('')")
            out.setdefault(self._after(init, "", False), ("",))
        return out

    def step(self, state, chunk):
        self._load(state)
        self._run(self._deliver(chunk), "push_chunk" if self.mode == "direct" else "on_llm_new_token")
        return self._after(state, chunk, False)

    def finish(self, state, end):
        """-> (outcome, labels);  outcome = (delivered, completion, consumer saw the end sentinel,
        something queued after the sentinel[, completion of the receiving handler])"""
        self._load(state)
        if end == "push_empty":
            self._run(self.h.push_chunk(""), "push_chunk('')")
        elif end == "push_none":
            self._run(self.h.push_chunk(None), "push_chunk(None)")
        else:
            if end == "empty_token+llm_end":
                self._run(self._deliver(""), "on_llm_new_token('')")
                state = self._after(state, "", True)
                self._load(state)
            self._run(self.h.on_llm_end(lib()["RES"], run_id=None), "on_llm_end")
        s = self._after(state, "", True)
        comp = self.field(s[S_SNAP], "completion")
        if self.outer is not None:
            return (s[S_DELIV], comp, s[S_ENDED], s[S_LATE], self.field(s[S_OUTER], "completion")), s[S_MON]
        return (s[S_DELIV], comp, s[S_ENDED], s[S_LATE]), s[S_MON]


# ------------------------------------------------------------------ from-scratch replay on a real loop
async def _real(cfg, mode, chunks, end):
    L = lib()
    prefix, suffix, stop = cfg
    h = L["SH"]()
    h.set_pattern(prefix=prefix, suffix=suffix)
    h.stop = list(stop)
    target = h
    if mode == "pipe":
        target = L["SH"]()
        h.set_pipe_to(target)
    got = []

    async def consume():
        async for ch in target:
            got.append(ch)

    def token(t):
        if mode == "pipe":
            return L["CGC"](message=L["AIC"](content=t))
        return L["GC"](text=t)

    async def deliver(t):
        if mode == "direct":
            await h.push_chunk(t)
        else:
            if mode == "tokenonly":
                await h.on_llm_new_token(t, run_id=None)
            else:
                await h.on_llm_new_token(t, chunk=token(t), run_id=None)

    consumer = asyncio.create_task(consume())
    try:
        await asyncio.sleep(0)
        for c in chunks:
            await deliver(c)
        if end == "push_empty":
            await h.push_chunk("")
        elif end == "push_none":
            await h.push_chunk(None)
        elif end is not None:
            if end == "empty_token+llm_end":
                await deliver("")
            await h.on_llm_end(L["RES"], run_id=None)
        # settle: piped tasks and the consumer run until nothing is runnable any more
        me = asyncio.current_task()
        for _ in range(10 * (len(chunks) + 4)):
            before = (len(got), consumer.done())
            for _ in range(3):
                await asyncio.sleep(0)
            others = [t for t in asyncio.all_tasks() if t is not me and t is not consumer and not t.done()]
            if not others and before == (len(got), consumer.done()):
                break
        ended = consumer.done()
    finally:
        if not consumer.done():
            consumer.cancel()
            try:
                await consumer
            except asyncio.CancelledError:
                pass
    if consumer.done() and not consumer.cancelled() and consumer.exception() is not None:
        raise consumer.exception()
    leftover = []
    while not target.queue.empty():
        leftover.append(target.queue.get_nowait())
    return {
        "delivered": "".join(x if isinstance(x, str) else repr(x) for x in got),
        "delivered_chunks": got,
        "completion": h.completion,
        "ended": ended,
        "late": any(x is not None and x != "" for x in leftover),
        "outer_completion": target.completion if mode == "pipe" else None,
    }


_RLOOP = None


def run_real(cfg, mode, chunks, end):
    global _RLOOP
    if _RLOOP is None or _RLOOP.is_closed():
        _RLOOP = asyncio.new_event_loop()
    return _RLOOP.run_until_complete(_real(tuple(cfg), mode, list(chunks), end))


def outcome_of_real(r, mode):
    o = (r["delivered"], r["completion"], r["ended"], r["late"])
    if mode == "pipe" or mode.startswith("handover"):
        o = o + (r["outer_completion"],)
    return o


# ------------------------------------------------------------------ naming a failure class
def _diff(got, want, cfg):
    """how string `got` deviates from string `want`"""
    prefix, suffix, stop = cfg
    if not isinstance(got, str):
        return "not-a-string"
    if got.startswith(want):
        extra = got[len(want):]
        if suffix and extra == suffix:
            return "suffix-kept"
        if any(st.startswith(extra) and st != extra for st in stop):
            return "stop-fragment-kept"
        if any(extra.startswith(st) for st in stop) or (suffix and any(extra.startswith(suffix + st) for st in stop)):
            return "not-cut-at-stop"
        if want.endswith(extra):
            return "tail-duplicated"
        return "extra-tail"
    if want.startswith(got):
        return "tail-lost"
    if got.endswith(want):
        return "extra-head"
    if want.endswith(got):
        return "head-lost"
    return "differs"


def _explain(got, text, cfg, rd):
    """names how the one delivered string `got` misses every reading `rd` of the statement"""
    prefix, suffix, stop = cfg
    near = sorted(rd, key=lambda r: (_diff(got, r, cfg) == "differs", abs(len(r) - len(got)), r))[0]
    if len(stop) > 1 and isinstance(got, str):
        # the text cut at a stop sequence that is not the first one?
        t = text[len(prefix):] if prefix and text.startswith(prefix) else text
        ok = cut_points(t, stop)
        if ok:
            first_end = min(t.find(s) + len(s) for s in stop if s in t)
            for s_ in stop:
                b = t.find(s_)
                if b < 0 or b in ok:
                    continue
                cut = t[:b]
                kind = "cut-at-later-overlapping-stop" if b < first_end else "cut-at-later-stop"
                if got == cut:
                    return kind
                if suffix and cut.endswith(suffix) and got == cut[: len(cut) - len(suffix)]:
                    return kind + "-then-suffix-removed"
    return _diff(got, near, cfg)


# ------------------------------------------------------------------ explore one sub-trie
def explore(task):
    cfg, mode, lead, root, nmax, own_from, val_mod = task[:7]
    # hand-over modes (see c18_handover.py): the text starts with `head` (the two intent lines of the single-call
    # format); what the statement calls the LLM output text is view(text) = the text behind those lines
    head = task[7] if len(task) > 7 else ""
    handover = mode.startswith("handover")
    if handover:
        from vf.props import c18_handover as ho

        rig = ho.HandoverRig(cfg, mode)
        syms = ho.alphabet(mode)
        view = ho.body_of
    else:
        rig = Rig(cfg, mode)
        syms = alphabet(cfg)

        def view(t):
            return t
    ends = ENDS[mode.split(":")[0]]
    shape = cfg_shape(cfg)
    counts = {
        "states": 0, "transitions": 0, "terminals": 0, "texts": 0, "groups": 0,
        "groups_with_merged_terminal_states": 0, "groups_divergent": 0,
        "chunkings_represented": 0, "max_states_per_offset": 0, "max_text_len": 0,
        "traces_validated_against_impl": 0, "texts_with_unique_reading": 0,
        "texts_prefix_absent": 0, "texts_ambiguous_reading": 0, "handler_exceptions": 0,
        "groups_without_end_sentinel": 0, "violating_groups": 0,
        "texts_where_pattern_logic_acted": 0, "prefix_absent_groups_off_reference": 0,
        "prefix_absent_groups_judged_against_reference": 0,
        "stoplist_texts": 0, "stoplist_texts_with_two_different_stops": 0,
    }
    if handover:
        counts.update({"handover_texts": 0, "handover_texts_before_the_handover": 0, "handover_groups_judged": 0,
                       "handover_texts_with_stop_in_body": 0, "handover_traces_validated_through_llmrails": 0})
    sl = is_stoplist(cfg)
    viol = {}      # signature -> [size, what, replay, n]
    samples = []
    # stack[j] = {state at offset j: [(i, state at offset i) = how it was first reached, ... last reached]}
    # stack[0] = {initial state: lead chunks};  fine[j] = the state of the one-character-per-chunk path
    textbox = [""]
    stack = [rig.initial_states()]
    fine = [next(iter(stack[0]))]

    def witness(j, state, text=None, which=0):
        """a concrete chunk list reaching `state` at offset j: which=0 follows the first way each state
        was reached (long chunks), which=1 the last way (short chunks); both deterministic"""
        text = textbox[0] if text is None else text
        chunks = []
        while j > 0:
            i, prev = stack[j][state][which]
            chunks.append(text[i:j])
            j, state = i, prev
        return list(stack[0][state]) + chunks[::-1]

    def confirm(chunks, end, outcome, force=False):
        if handover:
            r = ho.run_real(cfg, mode, chunks, end)
            if "".join(chunks).startswith(ho.RAILS_HEAD) and end == "llm_end" and (
                    force or zlib.crc32(repr(chunks).encode()) % 4 == 0):
                # the same tokens through a real LLMRails request (binds the recorded protocol to generation.py)
                try:
                    ho.confirm_through_llmrails(cfg, chunks, r)
                except ho.Disagree as d:
                    # the model is wrong about the library.  If what the REAL request delivered is off the statement,
                    # that is a finding whatever the model says; else the model is simply not bound: harness error
                    text_ = "".join(chunks)
                    rd_ = readings(view(text_), cfg)
                    if d.outcome == "done" and d.obs[0] == "ok" and d.obs[1] in rd_ and d.obs[2] == d.obs[1]:
                        raise RuntimeError(str(d))
                    near = sorted(rd_, key=lambda x: (abs(len(x) - len(d.obs[1])), x))[0]
                    record(f"llmrails-replay:{d.outcome}/{d.obs[0]}:{_diff(d.obs[1], near, cfg)}", len(text_), lambda: (
                        f"single-call streaming through LLMRails, LLM text {text_!r} as tokens {chunks!r}: {d.outcome}/{d.obs[0]}, the "
                        f"caller's handler delivered {d.obs[1]!r} (completion {d.obs[2]!r}); no reading of the statement gives that "
                        f"(readings of the text behind the intent lines: {sorted(rd_)!r}); the handler-level replay of the recorded "
                        f"protocol delivers {r['delivered']!r}",
                        {"level": "rails", "family": "single-request", "text": text_, "chunkings": [list(chunks)],
                         "delivered": [d.obs[1]], "expect": f"one of {sorted(rd_)!r}", "config": cfg_name(cfg)}, []))
                    return
                counts["handover_traces_validated_through_llmrails"] += 1
        else:
            r = run_real(cfg, mode, chunks, end)
        if outcome_of_real(r, mode) != outcome:
            raise RuntimeError(
                f"HARNESS: snapshot/restore search and from-scratch replay disagree for {cfg_name(cfg)} "
                f"mode={mode} end={end} chunks={chunks!r}: search {outcome!r} replay {outcome_of_real(r, mode)!r}"
            )
        counts["traces_validated_against_impl"] += 1

    n_parts = sum(1 for x in cfg if x)

    def record(sig, size, make):
        """keep the smallest / plainest case of each class; `make` builds (what, replay, [(chunks, end, outcome)..])"""
        if handover:
            sig = "handover:" + sig
        cur = viol.get(sig)
        if cur is None:
            cur = viol[sig] = [(1 << 30,), None, None, 0]
        cur[3] += 1
        size = (size, n_parts, MODES.index(mode) if mode in MODES else len(MODES), len(cfg[0] or ""))
        if size < cur[0]:
            what, rp, traces = make()
            for chunks, end, outcome in traces:
                confirm(chunks, end, outcome, True)
            cur[0], cur[1], cur[2] = size, what, rp

    def raised(e, chunks, end, text):
        counts["handler_exceptions"] += 1
        record(
            f"exception:{shape}:{type(e.exc).__name__}@{e.where}",
            len(text),
            lambda: (
                f"{e.where} raised {e} after chunks {chunks!r} of text {text!r} ({cfg_name(cfg)}, mode {mode})",
                {"config": cfg_name(cfg), "mode": mode, "text": text, "end": end,
                 "chunkings": [chunks], "expect": "no exception"},
                [],
            ),
        )

    def push_char(ch, own):
        text = textbox[0] = textbox[0] + ch
        j = len(text)
        level = {}
        ntr = 0
        nfine = None
        for i in range(j):
            c = text[i:j]
            for s in stack[i]:
                try:
                    s2 = rig.step(s, c)
                except HandlerRaised as e:
                    if own:
                        raised(e, witness(i, s, text) + [c], None, text)
                    continue
                ntr += 1
                back = level.get(s2)
                if back is None:
                    level[s2] = [(i, s), (i, s)]
                else:
                    back[1] = (i, s)
                if i == j - 1 and s == fine[i]:
                    nfine = s2
        stack.append(level)
        fine.append(nfine)
        if own:
            counts["transitions"] += ntr
            counts["states"] += len(level)
            if len(level) > counts["max_states_per_offset"]:
                counts["max_states_per_offset"] = len(level)
            check(j)

    def pop_to(n):
        del stack[n + 1:]
        del fine[n + 1:]
        textbox[0] = textbox[0][:n]

    def check(j):
        text = textbox[0]
        counts["texts"] += 1
        counts["chunkings_represented"] += (1 << max(0, j - 1)) * len(stack[0])
        if j > counts["max_text_len"]:
            counts["max_text_len"] = j
        if handover:
            counts["handover_texts"] += 1
            if view(text) is None:
                # fewer than k+1 non-empty lines: the hand-over never happens (nothing is streamed; whether the
                # request then ever ends is a liveness question, not C18)
                counts["handover_texts_before_the_handover"] += 1
                if any(rig.handed(s) for s in stack[j]):
                    raise RuntimeError(f"HARNESS: hand-over although the text {text!r} has no line k+1")
                return
            if any(st in view(text) for st in cfg[2]):
                counts["handover_texts_with_stop_in_body"] += 1
        rd = readings(view(text), cfg)
        if cfg[0] and not view(text).startswith(cfg[0]):
            counts["texts_prefix_absent"] += 1
        if len(rd) == 1:
            counts["texts_with_unique_reading"] += 1
        else:
            counts["texts_ambiguous_reading"] += 1
        if view(text) not in rd:
            counts["texts_where_pattern_logic_acted"] += 1
        if sl:
            counts["stoplist_texts"] += 1
            if len(cfg[2]) > 1 and sum(1 for st in cfg[2] if st in text) > 1:
                counts["stoplist_texts_with_two_different_stops"] += 1
        validate = val_mod and (zlib.crc32(repr((text, cfg, mode)).encode()) % val_mod == 0)
        for end in ends:
            outcomes = {}   # outcome -> [(pre-end state, labels)]
            nst = 0
            for s in stack[j]:
                try:
                    o, lab = rig.finish(s, end)
                except HandlerRaised as e:
                    raised(e, witness(j, s), end, text)
                    continue
                nst += 1
                lst = outcomes.get(o)
                if lst is None:
                    outcomes[o] = [(s, lab)]
                else:
                    lst.append((s, lab))
            counts["terminals"] += nst
            counts["groups"] += 1
            if nst > len(outcomes):
                counts["groups_with_merged_terminal_states"] += 1
            if any(not o[2] for o in outcomes):
                counts["groups_without_end_sentinel"] += 1
            if validate:
                for o, lst in outcomes.items():
                    coarse = witness(j, lst[0][0])
                    confirm(coarse, end, o)
                    fine_ = witness(j, lst[-1][0], which=1)
                    if fine_ != coarse:
                        confirm(fine_, end, o)
                    if len(samples) < 2 and j >= 4 and len(fine_) >= 3 and view(text) not in rd:
                        samples.append({"config": cfg_name(cfg), "mode": mode, "end": end, "text": text,
                                        "two_of_its_chunkings": [coarse, fine_], "delivered": o[0],
                                        "completion": o[1], "consumer_saw_end_sentinel": o[2],
                                        "outcomes_of_this_text": len(outcomes),
                                        "distinct_states_per_offset": [len(fr) for fr in stack]})
            if outcomes:
                if handover:
                    counts["handover_groups_judged"] += 1
                judge(text, j, end, outcomes, rd)

    def judge(text, j, end, outcomes, rd):
        base = {"config": cfg_name(cfg), "mode": mode, "text": text, "end": end}
        size = len(text)
        bad_group = False
        by_deliv = {}
        for o, lst in outcomes.items():
            by_deliv.setdefault(o[0], []).append((o, lst))
        if len(by_deliv) > 1:
            counts["groups_divergent"] += 1
            bad_group = True
            # the string to compare with: a delivered string that is a reading of the statement, else
            # what the finest chunking (one character per chunk) delivers
            cands = sorted(d for d in by_deliv if d in rd)
            exp = None
            if cands:
                exp = cands[0]
            elif fine[j] is not None:
                for o, lst in outcomes.items():
                    if any(s == fine[j] for s, _lab in lst):
                        exp = o[0]
            if exp is None:
                exp = sorted(by_deliv)[0]
            o_ok, s_ok = by_deliv[exp][0][0], by_deliv[exp][0][1][0][0]
            for d in sorted(by_deliv):
                if d == exp:
                    continue
                seen = set()
                for o_bad, lst in by_deliv[d]:
                    for s_bad, lab in lst:
                        why = lab[1] or lab[0] or (_diff(d, exp, cfg) + ":no-earlier-sign")
                        if why in seen:
                            continue
                        seen.add(why)

                        def make(d=d, o_bad=o_bad, s_bad=s_bad):
                            c_ok, c_bad = witness(j, s_ok), witness(j, s_bad)
                            return (
                                f"text {text!r} with {cfg_name(cfg)} ({mode}, end={end}): chunks {c_ok!r} deliver "
                                f"{exp!r} but chunks {c_bad!r} deliver {d!r}",
                                dict(base, chunkings=[c_ok, c_bad], delivered=[exp, d],
                                     expect="the same delivered string for every chunking",
                                     readings=sorted(x for x in rd if x is not None)),
                                [(c_ok, end, o_ok), (c_bad, end, o_bad)],
                            )

                        record(f"chunking:{why}", size, make)
        else:
            d = next(iter(by_deliv))
            absent = bool(cfg[0]) and not view(text).startswith(cfg[0])
            if absent:
                counts["prefix_absent_groups_judged_against_reference"] += 1
            if d not in rd:
                bad_group = True
                kind = _explain(d, view(text), cfg, rd)
                if absent:
                    # the text never showed the configured prefix: the class is named by how the stream ended
                    counts["prefix_absent_groups_off_reference"] += 1
                    if end in ("push_empty", "push_none"):
                        where = "push-end"
                    else:
                        where = "llm_end:" + ("stop-in-text" if any(st in view(text) for st in cfg[2]) else "no-stop-in-text")
                seen = set()
                for o1, lst in by_deliv[d]:
                    for s1, lab in lst:
                        why = lab[1] or lab[0] or "no-earlier-sign"
                        if absent:
                            why = where if why == "no-earlier-sign" else where + ":" + why
                        if why in seen:
                            continue
                        seen.add(why)

                        def make(o1=o1, s1=s1):
                            c1 = witness(j, s1)
                            return (
                                f"text {text!r} with {cfg_name(cfg)} ({mode}, end={end}): every chunking delivers {d!r}; "
                                f"no reading of the statement gives that (readings: {sorted(rd)!r})",
                                dict(base, chunkings=[c1], delivered=[d], expect=f"one of {sorted(rd)!r}",
                                     readings=sorted(rd)),
                                [(c1, end, o1)],
                            )

                        where_ = "prefix-absent" if absent else ("stop-list" if kind.startswith("cut-at-later") else shape)
                        record(f"reference:{where_}:{kind}:{why}", size, make)
        # completion == delivered, for every terminal state
        for which, idx in (("completion", 1), ("completion-of-receiving-handler", 4)):
            if idx == 4 and mode != "pipe" and not handover:
                continue
            for o, lst in outcomes.items():
                if o[idx] == o[0]:
                    continue
                bad_group = True
                seen = set()
                for s1, lab in lst:
                    if idx == 1 and lab[0]:
                        why = lab[0] + (":after-" + lab[1] if lab[1] and "behind" in lab[0] else "")
                    else:
                        why = _diff(o[idx], o[0], cfg) + ":no-earlier-sign"
                    if why in seen:
                        continue
                    seen.add(why)

                    def make(o=o, s1=s1, idx=idx, which=which):
                        c1 = witness(j, s1)
                        return (
                            f"text {text!r} with {cfg_name(cfg)} ({mode}, end={end}): chunks {c1!r} deliver {o[0]!r} "
                            f"but {which} is {o[idx]!r}",
                            dict(base, chunkings=[c1], delivered=[o[0]], completion=[o[idx]],
                                 expect=f"{which} == concatenation of the delivered chunks"),
                            [(c1, end, o)],
                        )

                    record(f"{which}:{why}", size, make)
        if bad_group:
            counts["violating_groups"] += 1

    # ---- walk
    if root is None:
        # a realistic shape: one path of the trie, every non-empty character-prefix is a text
        for ch in lead:
            push_char(ch, True)
    else:
        check_alphabet(syms)
        prefix = cfg[0]
        alpha_chars = set("".join(syms))
        if not lead and not root:
            check(0)
        # the lead (= the configured prefix, in the prefixed family): its proper character-prefixes are
        # texts of this family only when they cannot be spelled with the alphabet; the lead itself
        # belongs to the task without root symbols
        for n, ch in enumerate(lead):
            if n + 1 < len(lead):
                if lead == head:
                    own = not root      # the character-prefixes of the head belong to the family of free bodies
                else:
                    own = (not root) and any(c not in alpha_chars for c in lead[len(head): n + 1])
            else:
                own = not root
            push_char(ch, own)

        def rec(nsym):
            if nsym >= nmax:
                return
            for y in syms:
                mark = len(textbox[0])
                if lead == head and prefix and textbox[0][len(head):] + y == prefix:
                    continue  # prefix + anything is the other family
                for ch in y:
                    push_char(ch, True)
                rec(nsym + 1)
                pop_to(mark)

        pruned = False
        for k, y in enumerate(root):
            if lead == head and prefix and textbox[0][len(head):] + y == prefix:
                pruned = True
                break
            for ch in y:
                push_char(ch, k >= own_from)
        if not pruned:
            rec(len(root))
    return {"counts": counts, "violations": [
        {"signature": sig, "what": v[1], "replay": v[2], "size": v[0], "n": v[3]} for sig, v in viol.items()
    ], "samples": samples, "calls": rig.calls}


# ------------------------------------------------------------------ tasks / run
def tasks(tier):
    """(config, mode, lead, root symbols, max symbols, first owned root symbol, validation modulus)"""
    out = []
    val_mod = 23 if tier == "quick" else 307
    split = 2 if tier == "quick" else 3
    for cfg in configs():
        syms = alphabet(cfg)
        for mode in MODES:
            for lead, n in families(cfg, tier, mode):
                sp = min(split, n)
                # texts with fewer than `sp` symbols after the lead
                out.append((cfg, mode, lead, (), sp - 1, 0, val_mod))
                for root in itertools.product(syms, repeat=sp):
                    out.append((cfg, mode, lead, tuple(root), n, sp - 1, val_mod))
            for sh in SHAPES:
                out.append((cfg, mode, sh, None, 0, 0, 3))
    for cfg in sl_configs(tier):
        syms = alphabet(cfg)
        for mode in MODES:
            for lead, n in families(cfg, tier, mode):
                sp = 1 if n <= 5 else 2
                out.append((cfg, mode, lead, (), sp - 1, 0, val_mod))
                for root in itertools.product(syms, repeat=sp):
                    out.append((cfg, mode, lead, tuple(root), n, sp - 1, val_mod))
    return out


def new_family_task(task):
    """dispatcher of the one worker pool: the sub-tries of the handler families ("old"), the hand-over sub-tries and
    the LLMRails-level families around the single-call streaming path (c18_handover.py, c18_rails.py)"""
    kind = task[0]
    if kind in ("old", "handover"):
        return kind, explore(task[1])
    from vf.props import c18_rails as R

    if kind == "r1":
        return kind, R.r1_task(task[1])
    if kind == "r2":
        return kind, R.r2_task(task[1])
    raise RuntimeError(f"HARNESS: unknown task {task!r}")


def merge_violations(by_sig, violations):
    for v in violations:
        cur = by_sig.get(v["signature"])
        if cur is None:
            by_sig[v["signature"]] = v
        elif (v["size"], repr(v["replay"])) < (cur["size"], repr(cur["replay"])):
            v["n"] += cur["n"]
            by_sig[v["signature"]] = v
        else:
            cur["n"] += v["n"]


class SingleCallFamilies:
    """the hand-over of the single-call streaming path: handler-level search with the recorded protocol (mode
    "handover"), single requests through LLMRails (R1), two overlapping requests through LLMRails (R2)"""

    def __init__(self, rep, tier):
        from vf.props import c18_handover as ho
        from vf.props import c18_rails as R

        self.rep, self.tier, self.R, self.ho = rep, tier, R, ho
        R.app()
        try:
            ho.PROTO = R.record_protocol()
        except R.ProtocolNotRecordable as e:
            # no single atomic hand-over protocol to replay at handler level: the LLMRails-level families judge alone
            ho.PROTO = None
            self.cfg = cfg = R.DEFAULT_CONFIG
            self.hts = []
            self.not_recordable = str(e)[:2000]
            rep.set("handover_protocol_not_recordable", self.not_recordable)
        else:
            self.not_recordable = None
            self.cfg = cfg = R.config_of(ho.PROTO)
            rep.set("handover_protocol_recorded_from_generation_py", {"before_first_token": ho.PROTO["pre"], "k": ho.PROTO["k"],
                                                                      "at_handover": ho.PROTO["handover"], "config": cfg_name(cfg)})
            self.hts = ho.tasks(tier)
        r1 = [(ti, first, cfg) for ti in range(len(R.R1_TEXTS)) for first in [None] + list(range(1, len(R.R1_TEXTS[ti])))]
        self.r2 = [(pat, tier, cfg, 120 if tier == "quick" else 600) for pat in R.r2_patterns(tier)]
        # the big interleaving tasks first
        head = [("r2", t) for t in sorted(self.r2, key=lambda t: -len(t[0]))]
        tail = [("handover", t) for t in self.hts] + [("r1", t) for t in r1]
        if rep.seed:
            import random

            random.Random(rep.seed).shuffle(tail)  # order of work only
        self.tasks = head + tail
        self.pending = len(self.tasks)
        self.complete = True
        self.r1_merged = {}
        self.n_r1 = {"rails_single_request_runs": 0, "rails_single_request_streams_not_closed": 0,
                     "rails_single_request_runs_with_stop_inside_buffered_part": 0}
        self.agg2 = {"executions": 0, "states": 0, "transitions": 0, "validated": 0, "overlapping": 0, "outcomes": 0}
        self.viol2 = {}

    def consume(self, kind, res, by_sig):
        rep = self.rep
        self.pending -= 1
        if kind == "handover":
            rep.merge_counts(res["counts"])
            rep.add("handler_calls", res["calls"])
            rep.add("handover_tasks_done", 1)
            for sm in res["samples"][:1]:
                if len([x for x in rep.cov.get("samples", []) if str(x.get("mode", "")).startswith("handover")]) < 2:
                    rep.cov.setdefault("samples", []).insert(0, sm)
            merge_violations(by_sig, res["violations"])
        elif kind == "r1":
            ti, r = res
            self.n_r1["rails_single_request_runs"] += r["runs"]
            self.n_r1["rails_single_request_streams_not_closed"] += r["not_closed"]
            self.n_r1["rails_single_request_runs_with_stop_inside_buffered_part"] += r["stop_inside_buffered_part"]
            m = self.r1_merged.setdefault(ti, {})
            for k, v in r["by_delivered"].items():
                if k not in m or (len(v[0]), v[0]) < (len(m[k][0]), m[k][0]):
                    m[k] = v
        else:
            for k in self.agg2:
                self.agg2[k] += res[k]
            self.complete = self.complete and res["complete"]
            for sig, what, info in res["viol"]:
                if sig not in self.viol2 or len(what) < len(self.viol2[sig][0]):
                    self.viol2[sig] = (what, info)

    def finalize(self):
        """-> [(signature, what, replay)] of the LLMRails-level families, all interleavings explored?"""
        rep, R, ho, tier, cfg = self.rep, self.R, self.ho, self.tier, self.cfg
        for k, v in self.n_r1.items():
            rep.set(k, v)
        rep.set("rails_single_request_texts", len(R.R1_TEXTS))
        rep.set("rails_single_request_distinct_outcomes", sum(len(m) for m in self.r1_merged.values()))
        for k, v in self.agg2.items():
            rep.set("rails_overlapping_requests_" + k, v)
        rep.set("rails_overlapping_requests_chunking_patterns", len(self.r2))
        rep.set("rails_overlapping_requests_complete", self.complete)
        rep.set("handover_tasks_planned", len(self.hts))
        # violations of the LLMRails-level families: the smallest case of every signature
        found = {}

        def keep(sig, what, rp):
            cur = found.get(sig)
            size = sum(len(c) for c in rp.get("chunkings", [[]])[0]), len(rp.get("chunkings", [[]])[0])
            if cur is None or size < cur[0]:
                found[sig] = (size, what, rp, (cur[3] if cur else 0) + 1)
            else:
                found[sig] = (cur[0], cur[1], cur[2], cur[3] + 1)

        for ti in sorted(self.r1_merged):
            R.r1_judge(ti, cfg, self.r1_merged[ti], keep)
        rails_viol = []
        for sig in sorted(found):
            _sz, what, rp, n = found[sig]
            rails_viol.append((sig, what + f"  [{n} distinct outcomes show this class]", rp))
        for sig in sorted(self.viol2):
            rails_viol.append((sig, self.viol2[sig][0], self.viol2[sig][1]))
        rep.assumptions += [
            "single-call streaming (generation.py): the operations on the inner handler are recorded from a real LLMRails request "
            "(handover_protocol_recorded_from_generation_py) and replayed verbatim by the handler-level search (mode 'handover'); "
            "the hand-over runs right after the token that completes line k+1 and no token arrives inside it (tokens arrive only "
            "when the loop is idle - every token of the scripted LLM waits for an explorer-owned future); a token arriving "
            "between generate_user_intent and generate_bot_message (needs another action that really suspends) is not modelled",
            "hand-over texts: head (the two intent lines; 3 heads: plain, \\r\\n line ends, empty line + comment line) + body; the "
            "statement's 'LLM output text' is the body = the text behind the first k non-empty non-comment lines; bodies = every "
            "character-prefix of every sequence of <= n symbols (handover_bounds) free and behind the recorded prefix; texts whose "
            "line k+1 never starts are not judged (nothing is handed over; handover_texts_before_the_handover)",
            "LLMRails level: R1 = " + str(len(R.R1_TEXTS)) + " realistic LLM texts x every split into <= 3 tokens (+ per character / word / "
            "line / pair); R2 = two requests on one LLMRails, every chunking pattern over the cut points {end of line 1, end of "
            "line 2, behind the opening quote" + ("" if tier == "quick" else ", middle of the message, before the closing quote")
            + "} x every interleaving of arrivals and token deliveries (virtual loop, quiescence granularity)",
        ]
        rep.set("handover_bounds", {m: {"symbols_behind_prefix": b[0], "symbols_free_body": b[1], "alphabet": ho.alphabet(m)}
                                    for m, b in ho.bounds(tier).items()} if self.hts else "not run: " + str(self.not_recordable))
        rep.set("handover_heads", list(ho.HEADS))
        return rails_viol, self.complete and self.pending == 0 and self.not_recordable is None


def run(rep, tier):
    from vf import par

    lib()
    t_start = time.time()
    by_sig = {}
    sc = SingleCallFamilies(rep, tier)
    ts = tasks(tier)
    seed = rep.seed
    if seed:
        import random

        random.Random(seed).shuffle(ts)  # order of work only
    else:
        # big sub-tries first
        ts.sort(key=lambda t: -(len(alphabet(t[0])) ** max(0, t[4] - len(t[3] or ()))))
    budget = 56 if tier == "quick" else 17 * 60
    deadline = t_start + budget
    done = 0
    # one pool: the single-call families first (they always run to their end), then the sub-tries of the handler
    # families until the time budget is used up
    gen = par.pmap(new_family_task, sc.tasks + [("old", t) for t in ts], chunksize=2)
    for kind, res in gen:
        if kind != "old":
            sc.consume(kind, res, by_sig)
            if not sc.pending:
                rep.set("single_call_families_done_after_s", round(time.time() - t_start, 1))
        else:
            done += 1
            rep.merge_counts(res["counts"])
            rep.add("handler_calls", res["calls"])
            for s in res["samples"]:
                rep.sample(s)
            merge_violations(by_sig, res["violations"])
        if not sc.pending and time.time() > deadline:
            gen.close()     # leaves the pool context: the workers are terminated
            break
    rails_viol, new_complete = sc.finalize()
    new = 0
    for sig in sorted(by_sig, key=lambda s: (by_sig[s]["size"], s)):
        v = by_sig[sig]
        if rep.violation(sig, v["what"] + f"  [{v['n']} (text, end) groups show this class]", v["replay"]):
            new += 1
    for sig, what, rp in rails_viol:
        by_sig[sig] = {"n": 1, "what": what}
        if rep.violation(sig, what, rp):
            new += 1
    cfgs = configs()
    sl_cfgs = sl_configs(tier)
    rep.set("configs", len(cfgs) + len(sl_cfgs))
    rep.set("configs_stoplist_family", len(sl_cfgs))
    rep.set("stoplists", len({c[2] for c in sl_cfgs}))
    rep.set("modes", len(MODES))
    rep.set("tasks_planned", len(ts))
    rep.set("tasks_done", done)
    rep.set("violation_classes", {sig: {"groups": v["n"], "smallest": v["what"]} for sig, v in sorted(by_sig.items())})
    rep.set("violation_classes_found", len(by_sig))
    rep.set("violation_classes_not_in_known_findings", new)
    rep.set("bounds", {
        "symbols_per_text_by_alphabet_size": {
            fam: {str(k): bound(tier, k, fam) for k in (3, 4, 5)} for fam in ("free", "absent", "short", "long")},
        "pipe_mode": "one symbol less than the table",
        "families": "free: no prefix configured; absent: free texts while a prefix is configured; "
                    "short/long: symbols after the prefix '  \"' / 'Bot message: \"'",
        "alphabets": {repr(c): alphabet(c) for c in cfgs},
        "realistic_shapes": list(SHAPES),
        "end_protocols": {m: list(e) for m, e in ENDS.items()},
        "stoplist_family": {
            "stop_lists": "ordered lists of 1..2 distinct words over {x,y}, each <= 3 characters, together <= "
                          f"{4 if tier == 'quick' else 5}; one of each x<->y pair unless the suffix is 'y'",
            "prefixes": list(SL_PREFIXES), "suffixes": list(SL_SUFFIXES),
            "alphabet": "a, x, y (+ the suffix character)",
            "characters_per_text": {
                f"suffix={sfx!r}": {fam: {m: sl_bound(tier, (">" if fam != "free" else None, sfx, ("x",)), fam, m)
                                          for m in MODES} for fam in ("free", "lead", "absent")}
                for sfx in SL_SUFFIXES},
        },
    })
    rep.set("distinct_outcome_sets", rep.cov.get("groups_divergent", 0))
    rep.set("exhaustive", done == len(ts) and new_complete and rep.cov.get("handover_tasks_done", 0) == rep.cov.get("handover_tasks_planned"))
    if done < len(ts):
        rep.set("cap_hit", f"time budget {budget}s: {done}/{len(ts)} sub-tries (config x mode x first symbols) fully explored")
    rep.assumptions += [
        "texts: every character-prefix of every sequence of <= n symbols over the per-config alphabet (bounds.alphabets; "
        "n by family and alphabet size in bounds.symbols_per_text_by_alphabet_size) plus every character-prefix of the "
        "realistic shapes; 'texts' counts (text, config, mode) triples; the shapes may repeat a few short texts of the trie",
        "chunkings: ALL splits of each text into non-empty chunks (merged DAG; chunkings_represented = sum of 2^(len-1)), "
        "plus an optional empty first token in the LangChain modes",
        "pattern / stop configured before the first chunk (set_pattern + .stop as in tests/test_streaming_handler.py); "
        "the mid-stream reconfiguration done by generation.py (buffering, then set_pattern, then stop) is the subject of "
        "the hand-over modes",
        "queued items are observed only the way __anext__ hands them out: concatenation up to the first None/'' sentinel; "
        "the handler never reads its own queue",
        "handler coroutines do not suspend (unbounded queue); create_task'ed pipe pushes run FIFO after the creating coroutine; "
        "bound to the implementation by from-scratch replays on a real asyncio loop with an `async for` consumer",
        "enable_print is off; buffering (enable_buffer, wait_top_k_nonempty_lines) is on only in the hand-over modes; whether "
        "the stream is terminated by a sentinel is counted (groups_without_end_sentinel), not demanded",
        "a text that does not start with the configured prefix is read as 'nothing to remove': its reference is the text "
        "with the suffix removed and cut at the first stop sequence (the same no-op rule the statement needs for a text "
        "that does not end with the suffix); such groups are counted in prefix_absent_groups_judged_against_reference",
        "with several stop sequences 'the first stop sequence' is the occurrence that starts first or the occurrence that "
        "is complete first (they differ only when two occurrences overlap); both are accepted",
        "stop-list family: abstract characters x / y stand for the characters of stop sequences, a for any other character; "
        "exchanging x and y maps texts to texts, so one stop list of each x<->y pair is run (not with the suffix 'y')",
    ]


# ------------------------------------------------------------------ replay of one recorded case
def replay(rp):
    lib()
    if rp.get("level") == "rails":
        from vf.props import c18_rails as R

        return R.replay(rp)
    if str(rp.get("mode", "")).startswith("handover"):
        from vf.props import c18_handover as ho
        from vf.props import c18_rails as R

        R.app()
        ho.PROTO = R.record_protocol()
        print(f"property C18 | {rp.get('signature')}")
        print(f"hand-over protocol recorded from generation.py: {ho.PROTO}")
        print(f"text={rp['text']!r}  body (the text behind the {ho.PROTO['k']} intent lines)={ho.body_of(rp['text'])!r}  end={rp.get('end')}")
        print(f"expected: {rp.get('expect')}")
        for chunks in rp["chunkings"]:
            r = ho.run_real(None, rp["mode"], chunks, rp.get("end"))
            print(f"  tokens {chunks!r}\n     the caller's handler delivers {r['delivered_chunks']!r} = {r['delivered']!r}\n"
                  f"     completion of the inner handler {r['completion']!r}  of the caller's handler {r['outer_completion']!r}  "
                  f"consumer finished={r['ended']}")
            if "".join(chunks).startswith(ho.RAILS_HEAD):
                obs, outcome, _tr = R.run_default({"r": list(chunks)})
                o = obs["r"]
                print(f"     through LLMRails.generate_async: {outcome}/{o[0]} delivered {o[1]!r} completion {o[2]!r} response {o[3]!r}")
        return 0
    c = rp["config"]
    cfg = (c["prefix"], c["suffix"], tuple(c["stop"]))
    print(f"property C18 | {rp.get('signature')}")
    print(f"config {c}  mode={rp['mode']}  end={rp.get('end')}  text={rp['text']!r}")
    print(f"expected: {rp.get('expect')}")
    for chunks in rp["chunkings"]:
        try:
            r = run_real(cfg, rp["mode"], chunks, rp.get("end"))
        except Exception as e:  # noqa
            print(f"  chunks {chunks!r}: raised {type(e).__name__}: {e}")
            continue
        print(f"  chunks {chunks!r}\n     delivered chunks {r['delivered_chunks']!r} = {r['delivered']!r}\n"
              f"     completion {r['completion']!r}  consumer finished={r['ended']}"
              + (f"  receiving handler completion {r['outer_completion']!r}" if rp["mode"] == "pipe" else ""))
    if rp.get("delivered"):
        print(f"recorded by the search: delivered {rp['delivered']!r}"
              + (f" completion {rp['completion']!r}" if rp.get("completion") else ""))
    if _RLOOP is not None:
        _RLOOP.close()
    return 0
