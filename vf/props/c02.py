"""C02 - output rails gate every LLM-generated bot message, in every turn.

Worlds = {Colang 1.0, 2.x} x dialog {off,on} x rail-exceptions {off,on} x every ordered selection
of output rails; conversations = BFS over turns; per turn: message kind (LLM text / predefined)
x every effective verdict vector (accept / reject / rewrite(v1)).  The fold is reset every turn:
whatever happened in turn k, turn k+1 must be checked in full.
"""
from __future__ import annotations

import itertools

from vf.props import railsworld as rw
from vf.props.c01 import outcomes as outcomes_v1
from vf.props.c01_v2 import outcomes as outcomes_v2, reply_events

PROP = "C02"


def orders(max_rails, reduced=False):
    out = []
    for n in range(1, max_rails + 1):
        out.extend(itertools.permutations(rw.OUT_RAILS, n))
    if reduced:
        keep = {("out1",), ("out2",), ("out1", "out2"), ("out2", "out1"), ("out3", "out1")}
        out = [o for o in out if o in keep]
    return out


def llm_fn_for(kind, version):
    def fn(task, prompt, i):
        t = str(task)
        if "generate_user_intent" in t:
            return "  greet" if kind == "predef" else ("  ask var" if kind == "var" else "  ask")
        if "generate_value" in t:
            return f'"LLMTEXT-{rw.digest(prompt)}x"'
        if "generate_next_step" in t:
            return "  bot inform capabilities"
        if "generate_bot_message" in t:
            return f'  "LLMTEXT-{rw.digest(prompt)}x"'
        if version == "2.x":
            tail = prompt[-80:]
            if tail.rstrip().endswith("user intent:"):
                return "user asked something"
            if tail.rstrip().endswith("bot intent:"):
                return f'bot inform something\nbot action: bot say "LLMTEXT-{rw.digest(prompt)}x"'
            return f'"LLMTEXT-{rw.digest(prompt)}x"'
        return f"LLMTEXT-{rw.digest(prompt)}x"
    return fn


def explore_world(task):
    version, order, dialog, exceptions, turns = task[:5]
    library = len(task) > 5 and task[5] == "library"
    param = len(task) > 5 and task[5] == "param"
    v2 = version == "2.x"
    res = {"worlds": 1, "turns": 0, "conversations": 0, "rejections": 0, "rewrites": 0, "llm_text_turns": 0,
           "turns_after_a_block_or_rewrite": 0, "rail_calls": 0, "viol": []}
    info0 = {"engine": "E3-world", "prop": "C02", "version": version, "order": list(order), "dialog": dialog, "exceptions": exceptions, "library_rails": library, "param_rails": param}
    try:
        if v2:
            world = rw.v2_world(in_order=("in1",), out_order=order, dialog=dialog, exceptions=exceptions, library=library)
        else:
            world = rw.v1_world(in_order=("in1",), out_order=order, dialog=dialog, exceptions=exceptions, param_rails=("both" if param else False))
    except Exception as e:
        res["viol"].append((f"world-rejected:{version}", repr(e), info0))
        return res
    outs = outcomes_v2(order) if v2 else outcomes_v1(order)
    if library or param:
        outs = [o for o in outs if "W" not in o and "N" not in o]   # the shipped rail allows or rejects (its stub returns a verdict dict / bool)
    kinds = (["llm", "predef"] + ([] if v2 else ["var"])) if dialog is True else ["llm"]
    nonce = [0]
    tag = f"{'v2' if v2 else 'v1'}:{'llmlib' if dialog == 'llm' else ('dialog' if dialog else 'nodialog')}" + (":library-rails" if library else "") + (":parameterised-rails" if param else "")

    def expand(ctx, t, hist, disturbed):
        if t > turns:
            res["conversations"] += 1
            return
        for kind in kinds:
            for oc in (outs if kind in ("llm", "var") else [tuple("A" for _ in order)]):
                nonce[0] += 1
                if v2:
                    user_text = {"llm": "ask", "predef": "hello", "var": "value"}[kind] if dialog is True else f"U{t}x{nonce[0]}q hello"
                else:
                    user_text = f"U{t}x{nonce[0]}q hello"
                verdicts = {"in1": "A"}
                plan = []
                for r, k in zip(order, oc):
                    plan.append((r, k))
                    if k in "RN":
                        break
                for r, k in plan:
                    # N: the rail's action rejects with None (a falsy result that is not False)
                    verdicts[r] = k if k in "RN" else ("A" if k == "A" else ("W", f"RW{r}t{t}x{nonce[0]}q rewritten"))
                if v2:
                    turn = rw.run_turn(world, [{"role": "user", "content": user_text}], verdicts, llm_fn_for(kind, version), state=ctx)
                else:
                    msgs = ctx + [{"role": "user", "content": user_text}]
                    turn = rw.run_turn(world, msgs, verdicts, llm_fn_for(kind, version))
                res["turns"] += 1
                if disturbed:
                    res["turns_after_a_block_or_rewrite"] += 1
                step = {"t": t, "user": user_text, "kind": kind, "outcome": "".join(oc)}
                info = dict(info0, history=hist + [step])

                def bad(sig, what):
                    res["viol"].append((f"{sig}:{tag}" + (":after-block-or-rewrite" if disturbed else ""), what, info))

                if turn.exc is not None:
                    bad("generate-raised", f"{turn.exc!r}")
                    continue
                out_calls = [(a["rail"], a["text"]) for a in turn.actions if a.get("rail") in rw.OUT_RAILS]
                res["rail_calls"] += len(out_calls)
                now_disturbed = disturbed
                if kind in ("llm", "var"):
                    res["llm_text_turns"] += 1
                    gen = [c for c in turn.llm_calls if "LLMTEXT-" in str(c.get("answer", ""))]
                    for c in gen:
                        if "bot say" in str(c["answer"]):
                            c["answer"] = str(c["answer"]).split("bot say", 1)[1]
                    if not gen:
                        # no bot message was generated at all in this turn (e.g. the v2 llm library refuses to
                        # call the LLM while it believes the bot is still talking after an aborted `bot say`):
                        # nothing for the output rails to gate - outside the statement, counted
                        res["turns_without_generated_message"] = res.get("turns_without_generated_message", 0) + 1
                        res["llm_text_turns"] -= 1
                        if turn.text and not (turn.text or "").startswith(("REFUSED", "EXC:")) and turn.text != rw.LIB_REFUSAL:
                            bad("reply-without-generation", f"no LLM text was generated but the reply is {turn.text!r}")
                        if v2:
                            expand(turn.reply.state, t + 1, hist + [step], now_disturbed)
                        continue
                    llm_text = gen[-1]["answer"].strip().strip('"')
                    cur = llm_text
                    expected = []
                    rejected_by = None
                    for r, k in plan:
                        expected.append((r, cur))
                        if k in "RN":
                            rejected_by = r
                            break
                        if k == "W":
                            cur = verdicts[r][1]
                    # v2 routes the refusal itself through `bot say`; calls on the refusal text are not demanded
                    got = [c for c in out_calls if not str(c[1]).startswith("REFUSED-") and c[1] != rw.LIB_REFUSAL]
                    if got != expected:
                        bad("output-rail-sequence", f"order={order} outcome={oc}: LLM text {llm_text!r}; rails invoked {got}, expected {expected}; reply {turn.text!r}")
                    if rejected_by:
                        res["rejections"] += 1
                        now_disturbed = True
                        if llm_text in (turn.text or ""):
                            bad("rejected-text-in-reply", f"rail {rejected_by} rejected {llm_text!r} but the reply is {turn.text!r}")
                        if exceptions:
                            if v2:
                                evs = [e for e in reply_events(turn.reply) if e.get("type") == "OutputRailException"]
                                ok = bool(evs) and evs[0].get("message") == rw.v2_exc_message(rejected_by, library)
                            elif param:
                                # (Colang 1.0 does not interpolate the `{$model}` of the shipped rail's message)
                                ok = turn.text == "EXC:Output not allowed. The output was blocked by the 'content safety check output $model='{$model}'' flow."
                            else:
                                ok = turn.text == f"EXC:BLOCKED-{rejected_by}"
                            if not ok:
                                bad("reply-is-not-the-rail-exception", f"rail {rejected_by} rejected; reply {turn.text!r}")
                        elif turn.text != (rw.v2_refusal(rejected_by, library) if v2 else (rw.LIB_REFUSAL if param else f"REFUSED-{rejected_by}")):
                            bad("reply-is-not-the-refusal", f"rail {rejected_by} rejected; reply {turn.text!r}")
                    else:
                        if cur != llm_text:
                            res["rewrites"] += 1
                            now_disturbed = True
                        if turn.text != cur:
                            bad("reply-is-not-the-checked-text", f"outcome={oc}: expected reply {cur!r} (LLM text {llm_text!r}), got {turn.text!r}")
                else:
                    # predefined message: output rails may be skipped (v1) or run; either way the message is returned
                    if turn.text != "PREDEF-greet-back":
                        bad("predefined-message-lost", f"expected the predefined message, got {turn.text!r}")
                if v2:
                    nxt = turn.reply.state
                else:
                    reply = turn.reply if isinstance(turn.reply, dict) else {"role": "assistant", "content": str(turn.text)}
                    nxt = ctx + [{"role": "user", "content": user_text}] + ([reply] if reply.get("role") != "exception" else [])
                expand(nxt, t + 1, hist + [step], now_disturbed)

    expand({} if v2 else [], 1, [], False)
    seen, uniq = set(), []
    for v in res["viol"]:
        if v[0] not in seen:
            seen.add(v[0])
            uniq.append(v)
    res["viol"] = uniq
    res["sample"] = dict(info0, turns=res["turns"])
    return res


def explore_state_mode(task):
    """Colang 1.0 conversations continued through the `state` object, with per-turn generation options:
    a turn may disable the output rails (and may be blocked by the input rail, which utters a predefined
    refusal); whatever happened before, a later turn with output rails enabled must run them in full."""
    _tag, dialog, turns = task
    res = {"worlds": 1, "turns": 0, "conversations": 0, "rejections": 0, "rewrites": 0, "llm_text_turns": 0,
           "turns_after_a_block_or_rewrite": 0, "rail_calls": 0, "viol": []}
    world = rw.v1_world(in_order=("in1",), out_order=("out1",), dialog=dialog)
    info0 = {"engine": "E3-world", "prop": "C02", "version": "1.0", "mode": "state-continued", "dialog": dialog}
    choices = []
    # how the call selects the rails: category list, no options at all, output rails given by name, output off
    for in_v in ("A", "R"):
        for out_on in (True, "no-options", "names", False):
            for out_v in (("A", "R", "W") if (in_v == "A" and out_on) else ("A",)):
                if out_on in ("no-options", "names") and out_v == "W":
                    continue
                choices.append((in_v, out_on, out_v))
    nonce = [0]

    def expand(state, t, hist, disturbed):
        if t > turns:
            res["conversations"] += 1
            return
        for in_v, out_on, out_v in choices:
            nonce[0] += 1
            user_text = f"U{t}x{nonce[0]}q hello"
            verdicts = {"in1": in_v, "out1": "R" if out_v == "R" else ("A" if out_v == "A" else ("W", f"RWout1t{t}x{nonce[0]}q rewritten"))}
            if out_on == "no-options":
                options = None
            elif out_on == "names":
                options = {"rails": {"output": ["out1"]}}
            else:
                options = {"rails": ["input", "dialog", "retrieval"] + (["output"] if out_on else [])}
            turn = rw.run_turn(world, [{"role": "user", "content": user_text}], verdicts, llm_fn_for("llm", "1.0"), options=options, state=state)
            res["turns"] += 1
            step = {"t": t, "in": in_v, "output_rails_enabled": out_on if isinstance(out_on, bool) else f"yes ({out_on})", "out": out_v}
            info = dict(info0, history=hist + [step])

            def bad(sig, what):
                res["viol"].append((f"{sig}:v1:state-continued" + (":after-block-or-disabled-turn" if disturbed else ""), what, info))

            if turn.exc is not None:
                bad("generate-raised", f"{turn.exc!r}")
                continue
            out_calls = [(a["rail"], a["text"]) for a in turn.actions if a.get("rail") in rw.OUT_RAILS]
            res["rail_calls"] += len(out_calls)
            gen = [c for c in turn.llm_calls if "LLMTEXT-" in str(c.get("answer", ""))]
            now = disturbed or in_v == "R" or not out_on or out_v != "A"
            out_on = bool(out_on)
            if disturbed:
                res["turns_after_a_block_or_rewrite"] += 1
            if in_v == "A" and gen and out_on:
                res["llm_text_turns"] += 1
                llm_text = gen[-1]["answer"].strip().strip('"')
                if out_calls != [("out1", llm_text)]:
                    bad("output-rail-sequence", f"LLM text {llm_text!r} with output rails enabled: rails invoked {out_calls}; reply {turn.text!r}")
                elif out_v == "R":
                    res["rejections"] += 1
                    if turn.text != "REFUSED-out1" or llm_text in (turn.text or ""):
                        bad("rejected-text-in-reply", f"out1 rejected {llm_text!r}; reply {turn.text!r}")
                elif out_v == "W":
                    res["rewrites"] += 1
                    if turn.text != verdicts["out1"][1]:
                        bad("reply-is-not-the-checked-text", f"expected the rewritten text, got {turn.text!r}")
                elif turn.text != llm_text:
                    bad("reply-is-not-the-checked-text", f"expected {llm_text!r}, got {turn.text!r}")
            elif in_v == "A" and gen and not out_on and out_calls:
                bad("disabled-output-rails-ran", f"{out_calls}")
            expand(turn.reply.state, t + 1, hist + [step], now)

    expand({}, 1, [], False)
    seen, uniq = set(), []
    for v in res["viol"]:
        if v[0] not in seen:
            seen.add(v[0])
            uniq.append(v)
    res["viol"] = uniq
    res["sample"] = dict(info0, turns=res["turns"])
    return res


V2_PARALLEL = """
flow main
  activate h1
  activate h2

flow h1
  user said something
  $text = ..."Answer A"
  bot say $text

@loop("second")
flow h2
  user said something
  $text = ..."Answer B"
  bot say $text
"""


def explore_parallel(task):
    """Colang 2.x: two flows in different interaction loops answer the same utterance with LLM generated
    text in the same turn - every one of the messages must pass the output rails."""
    _tag, turns = task
    res = {"worlds": 1, "turns": 0, "conversations": 0, "rejections": 0, "rewrites": 0, "llm_text_turns": 0,
           "turns_after_a_block_or_rewrite": 0, "rail_calls": 0, "viol": []}
    world = rw.v2_world(in_order=("in1",), out_order=("out1",), main=V2_PARALLEL)
    info0 = {"engine": "E3-world", "prop": "C02", "version": "2.x", "mode": "parallel-loops"}
    fn = llm_fn_for("llm", "2.x")

    def expand(state, t, hist):
        if t > turns:
            res["conversations"] += 1
            return
        for out_v in ("A", "R"):
            turn = rw.run_turn(world, [{"role": "user", "content": f"U{t} hello"}], {"in1": "A", "out1": out_v}, fn, state=state)
            res["turns"] += 1
            step = {"t": t, "out": out_v}
            info = dict(info0, history=hist + [step])
            if turn.exc is not None:
                res["viol"].append(("generate-raised:v2:parallel-loops", repr(turn.exc), info))
                continue
            texts = [str(c.get("answer", "")).strip().strip('"') for c in turn.llm_calls if "LLMTEXT-" in str(c.get("answer", ""))]
            checked = {a["text"] for a in turn.actions if a.get("rail") == "out1"}
            res["rail_calls"] += len(checked)
            res["llm_text_turns"] += 1 if texts else 0
            reply = turn.text or ""
            for x in texts:
                if x in reply and x not in checked:
                    res["viol"].append(("unchecked-llm-message-uttered:v2:parallel-loops",
                                        f"two flows in different loops answered in one turn: {x!r} is in the reply {reply!r} but no output rail was invoked on it (checked: {sorted(checked)})", info))
                    break
                if out_v == "R" and x in reply:
                    res["viol"].append(("rejected-text-in-reply:v2:parallel-loops", f"out1 rejects everything but {x!r} is in the reply {reply!r}", info))
                    break
            if out_v == "R":
                res["rejections"] += 1
            expand(turn.reply.state, t + 1, hist + [step])

    expand({}, 1, [])
    seen, uniq = set(), []
    for v in res["viol"]:
        if v[0] not in seen:
            seen.add(v[0])
            uniq.append(v)
    res["viol"] = uniq
    return res


def dispatch(task):
    if task[0] == "parallel":
        return explore_parallel(task)
    if task[0] == "state-mode":
        return explore_state_mode(task)
    return explore_world(task)


def dispatch_more(item):
    i, t = item
    from vf.props import c02_refs, c02_selfcheck, c02_v2rewrite
    return (c02_selfcheck.explore_ctx, c02_refs.explore, c02_v2rewrite.explore)[i](t)


def tasks(tier):
    out = []
    plan = [(2, 2)] if tier == "quick" else [(3, 2), (2, 3)]
    seen = set()
    for max_rails, turns in plan:
        for version in ("1.0", "2.x"):
            for order in orders(max_rails, reduced=(tier == "quick")):
                for dialog in ((False, True) if version == "1.0" else (False, True, "llm")):
                    for exc in (False, True):
                        key = (version, order, dialog, exc)
                        if key in seen and turns <= 2:
                            continue
                        seen.add(key)
                        out.append((version, order, dialog, exc, turns))
    # Colang 1.0: one shipped rail flow configured twice with different parameters (content safety check output $model=...)
    for dialog in (False, True):
        for exc in (False, True):
            out.append(("1.0", ("out1", "out2"), dialog, exc, 2 if tier == "quick" else 3, "param"))
    # the shipped `self check output` rail (its action replaced by a stub)
    for dialog in (False, True, "llm"):
        for exc in (False, True):
            out.append(("2.x", ("out1",), dialog, exc, 2 if tier == "quick" else 3, "library"))
    for dialog in (False, True):
        out.append(("state-mode", dialog, 2 if tier == "quick" else 3))
    out.append(("parallel", 2))
    return out


def run(rep, tier):
    from vf import par
    import vf.engines.world  # noqa

    ts = tasks(tier)
    agg = {}
    n = 0
    for r in par.pmap(dispatch, ts):
        n += 1
        for k, v in r.items():
            if isinstance(v, int):
                agg[k] = agg.get(k, 0) + v
        for sig, what, info in r["viol"]:
            rep.violation(sig, what, info)
        if n % max(1, len(ts) // 5) == 0 and "sample" in r:
            rep.sample(r["sample"])
    # ---- Colang 2.x with the rails listed in config.yml (vf/props/c02_yaml.py)
    from vf.props import c02_yaml
    for r in par.pmap(c02_yaml.explore, c02_yaml.configs(tier)):
        for k, v in r.items():
            if isinstance(v, int):
                agg[k] = agg.get(k, 0) + v
        for sig, what, info in r["viol"]:
            rep.violation(sig, what, info)
    # ---- the shipped self-check rails with their real actions: long messages / prompt length limit (vf/props/c02_selfcheck.py)
    from vf.props import c02_selfcheck
    for r in list(par.pmap(c02_selfcheck.explore_stop, c02_selfcheck.stop_tasks(tier))) + list(par.pmap(c02_selfcheck.explore, c02_selfcheck.tasks(tier))):
        for k, v in r.items():
            if isinstance(v, int):
                agg[k] = agg.get(k, 0) + v
        for sig, what, info in r["viol"]:
            rep.violation(sig, what, info)
    # ---- the real self_check_output action with a verdict that depends on the user message shown in the check prompt; one bot
    #      text recurring in later turns / conversations of one instance (vf/props/c02_selfcheck.py: explore_ctx)
    # ---- bot texts shaped like variable references / templates, with such variables defined (vf/props/c02_refs.py)
    # ---- Colang 2.x rails that rewrite the global $bot_message (vf/props/c02_v2rewrite.py)
    from vf.props import c02_refs, c02_v2rewrite
    more = [(c02_selfcheck.explore_ctx, c02_selfcheck.ctx_tasks(tier)), (c02_refs.explore, c02_refs.tasks(tier)), (c02_v2rewrite.explore, c02_v2rewrite.tasks(tier))]
    for r in par.pmap(dispatch_more, [(i, t) for i, (_f, ts2) in enumerate(more) for t in ts2]):
        for k, v in r.items():
            if isinstance(v, int):
                agg[k] = agg.get(k, 0) + v
        for sig, what, info in r["viol"]:
            rep.violation(sig, what, info)
    # ---- event level: the shipped guardrails library under the event API (vf/props/c02_events.py, E1 explorer)
    from vf.props import c02_events
    ev = {"states": 0, "transitions": 0, "traces_validated_against_impl": 0, "checked_utterances": 0, "output_rail_approvals": 0,
          "output_rail_rejections": 0, "output_rails_aborted_in_flight": 0}
    for r in par.pmap(c02_events.explore, c02_events.tasks(tier)):
        for k in ev:
            ev[k] += r["counts"].get(k, 0)
        if r["counts"].get("capped"):
            rep.set("event_level_state_cap_hit", True)
        for v in r["violations"]:
            rep.violation(v["signature"], v["what"], dict(v["replay"], part="events"))
    for k, v in ev.items():
        rep.set("event_level_" + k, v)
    rep.set("event_level_bots", list(c02_events.BOTS))
    for k, v in agg.items():
        rep.set(k, v)
    rep.set("evaluations", agg.get("turns", 0))
    rep.set("distinct_nontrivial", agg.get("rejections", 0) + agg.get("rewrites", 0))
    rep.set("rule", "every world x every conversation (per turn: message kind x every effective verdict vector); non-trivial = turns in which an output rail rejected or rewrote; "
                    "turns_after_a_block_or_rewrite counts the turns checked after such a turn")
    rep.set("exhaustive", True)
    rep.assumptions += [
        "rails are stub flows following the shape of the shipped self-check output rail; v2 refusal is uttered through `bot say` (guardrails library)",
        "scripted LLM, fake embedding engine",
        "reference-shaped texts: shape `$name` x 9 variable names (caller-given incl. two chained aliases, library-set, undefined) and 4 control shapes x 3 names, in turn 1 or 2 of 2; Colang 2.x there uses the shipped `self check output` flow with a stub action reading the message from the context",
        "verdict depending on the user message: real self_check_output action, every sequence of (user plain/flagged) x (bot text X/Y) over 3 turns (thorough 4), all conversations of a world on one LLMRails instance",
        "Colang 2.x rewriting rails: rails rewrite by assigning the global $bot_message (the shape of the shipped `mask sensitive data on output` / `autoalign check output`), <=2 rails, verdicts {A,R,W}, 2 turns (thorough 3)",
        "event level: core.co + guardrails.co + three small bots (an answer the user can interrupt, two answers in a row, a started answer that is stopped) explored by the E1 explorer over all orders of user utterances and action results (rail verdicts True / False, utterance Started / Finished) to depth 12 (quick) / 15 (thorough); every emitted StartUtteranceBotAction with a non-refusal text needs an approving output-rails run of its own",
    ]


def replay(rp):
    if rp.get("part") == "events":
        from vf.props.c07 import replay as r7
        return r7(rp)
    if rp.get("part") == "refs":
        from vf.props import c02_refs
        return c02_refs.replay(rp)
    if rp.get("part") == "v2rewrite":
        from vf.props import c02_v2rewrite
        return c02_v2rewrite.replay(rp)
    if rp.get("part") == "selfcheck-ctx":
        from vf.props import c02_selfcheck
        return c02_selfcheck.replay_ctx(rp)
    v2 = rp["version"] == "2.x"
    order = tuple(rp["order"])
    world = (rw.v2_world(in_order=("in1",), out_order=order, dialog=rp["dialog"], exceptions=rp["exceptions"], library=rp.get("library_rails", False)) if v2
             else rw.v1_world(in_order=("in1",), out_order=order, dialog=rp["dialog"], exceptions=rp["exceptions"], param_rails=("both" if rp.get("param_rails") else False)))
    ctx = {} if v2 else []
    for step in rp["history"]:
        verdicts = {"in1": "A"}
        for r, k in zip(order, step["outcome"]):
            verdicts[r] = k if k in "RN" else ("A" if k == "A" else ("W", f"RW{r} rewritten"))
        if v2:
            turn = rw.run_turn(world, [{"role": "user", "content": step["user"]}], verdicts, llm_fn_for(step["kind"], "2.x"), state=ctx)
            ctx = turn.reply.state if turn.reply is not None else ctx
        else:
            msgs = ctx + [{"role": "user", "content": step["user"]}]
            turn = rw.run_turn(world, msgs, verdicts, llm_fn_for(step["kind"], "1.0"))
            reply = turn.reply if isinstance(turn.reply, dict) else {"role": "assistant", "content": str(turn.text)}
            ctx = msgs + ([reply] if reply.get("role") != "exception" else [])
        print(step, "->", repr(turn.text), "| out rails:", [(a["rail"], a["text"]) for a in turn.actions if a.get("rail") in rw.OUT_RAILS],
              "| llm answers:", [c.get("answer") for c in turn.llm_calls])
    print(rp["what"])
    return 0
