"""C16, conversation-history family: the rails-only call is the LAST step of a longer conversation, and the texts under
check may REPEAT texts of that conversation (the user answers "yes" twice, repeats the bot's words, the supplied bot
message repeats an earlier answer, a rail rewrites the text into one that was said before).  The statement quantifies
over all user / bot texts and says nothing about what was said earlier: the table applies to the texts of THIS call.

Enumeration, per way the earlier conversation reaches the call
  messages - earlier turns passed as plain `messages` (events built from scratch: the instance's events cache is empty)
  cache    - earlier turns were rails-only calls on the same instance, their replies appended (events cache hit)
  state    - earlier turns were rails-only calls continued through the `state` object
x number of earlier exchanges {1, 2}
x selection {input, input+output, output}
x user text  in {fresh, = previous user turn, = older user turn, = previous bot turn}
x bot text   in {fresh, = previous bot turn, = previous user turn, = the user text of this call}     (when supplied)
x verdicts   {all accept, second rail rejects, first rail rewrites into a fresh text, first rail rewrites into the
              previous user / bot turn}        (cache / state: accept, reject and the rewrite into an earlier turn).
Oracle = the table of the sequential part, for this call only: the rails invoked (in order, with the text they saw - no
rail runs on an earlier turn again), the reply, no LLM call, log = the rails that ran with `stop` on the rejecting one.
"""
from __future__ import annotations

import itertools

from vf.props import railsworld as rw

IN_ORDER = ("in1", "in2")
OUT_ORDER = ("out1", "out2")
SOURCES = ("messages", "cache", "state")
SUBSETS = (("input",), ("input", "output"), ("output",))
USER_ALIASES = ("fresh", "previous-user-turn", "older-user-turn", "previous-bot-turn")
BOT_ALIASES = ("fresh", "previous-bot-turn", "previous-user-turn", "user-text-of-this-call")
# verdict rows: (first rail, second rail); W> = the first rail rewrites into an EARLIER turn's text
IN_ROWS = ("AA", "AR", "WA", "W>A")
OUT_ROWS = ("AA", "AR", "WA", "W>A")


def make_world():
    from vf.props import c16_shapes
    return c16_shapes.make_world(False)


def build_history(world, source, k, tag):
    """-> (history messages to prepend, state to pass, user texts, bot texts) of k earlier exchanges"""
    users = [f"HU{tag}x{i} earlier question" for i in range(k)]
    none = lambda task, prompt, i: "UNEXPECTED-LLM-CALL"
    accept = {"in1": "A", "in2": "A", "out1": "A", "out2": "A", "ret1": "A"}
    if source == "messages":
        bots = [f"HB{tag}x{i} earlier answer" for i in range(k)]
        hist = []
        for u, b in zip(users, bots):
            hist += [{"role": "user", "content": u}, {"role": "assistant", "content": b}]
        return hist, None, users, bots, None
    if source == "cache":
        # rails-only input checks of the earlier turns on this instance: the reply is the user text, appended by the caller
        world.rails.events_history_cache.clear()
        hist, bots = [], []
        for u in users:
            t = rw.run_turn(world, hist + [{"role": "user", "content": u}], accept, none, options={"rails": ["input"]})
            if t.exc is not None or t.text != u:
                return None, None, users, bots, f"earlier call: reply {t.text!r} exception {t.exc!r}"
            hist = hist + [{"role": "user", "content": u}, {"role": "assistant", "content": t.text}]
            bots.append(t.text)
        return hist, None, users, bots, None
    # state: rails-only input+output checks with a supplied bot message, continued through the returned state
    bots = [f"HB{tag}x{i} earlier answer" for i in range(k)]
    state = {}
    for u, b in zip(users, bots):
        t = rw.run_turn(world, [{"role": "user", "content": u}, {"role": "assistant", "content": b}], accept, none,
                        options={"rails": ["input", "output"]}, state=state)
        if t.exc is not None or t.text != b:
            return None, None, users, bots, f"earlier call: reply {t.text!r} exception {t.exc!r}"
        state = t.reply.state
    return [], state, users, bots, None


def rows_for(source, subset):
    sel = set(subset)
    reduced = source != "messages"
    ins = [r for r in IN_ROWS if not (reduced and r == "WA")] if "input" in sel else [None]
    outs = [r for r in OUT_ROWS if not (reduced and r == "WA")] if "output" in sel else [None]
    out = []
    for i, o in itertools.product(ins, outs):
        if i is not None and "R" in i and o is not None and o != "AA":
            continue        # the output rails do not run after a blocked input
        if i is not None and o is not None and i == "WA" and o == "WA":
            continue
        out.append((i, o))
    return out


def cases(source, k, subset):
    sel = set(subset)
    uas = [a for a in USER_ALIASES if not (a == "older-user-turn" and k < 2)]
    if "input" not in sel:
        uas = ["fresh", "previous-user-turn"]
    if source == "cache":
        uas = [a for a in uas if a != "previous-bot-turn"]      # the earlier replies ARE the earlier user texts there
    bas = list(BOT_ALIASES) if "output" in sel else [None]
    if source == "cache":
        bas = [a for a in bas if a != "previous-bot-turn"]
    out = [(ua, ba, i, o) for ua in uas for ba in bas for (i, o) in rows_for(source, subset)]
    out.sort(key=lambda c: len(features(*c)))      # stable: the cases with one repeated text come before the combinations
    return out


def fold(order, row, text, fresh, earlier):
    verdicts, calls, cur, rej = {}, [], text, None
    k1 = row[:-1]        # "A" | "W" | "W>"
    calls.append((order[0], cur))
    if k1 == "A":
        verdicts[order[0]] = "A"
    else:
        cur = earlier if k1 == "W>" else fresh
        verdicts[order[0]] = ("W", cur)
    calls.append((order[1], cur))
    if row[-1] == "R":
        verdicts[order[1]] = "R"
        rej = order[1]
    else:
        verdicts[order[1]] = "A"
    return verdicts, calls, cur, rej


def run_case(world, source, k, subset, ua, ba, in_row, out_row, nonce, shared=None):
    sel = set(subset)
    if shared is None:
        shared = build_history(world, source, k, nonce)
    hist, state, users, bots, err = shared
    if err:
        return None, {"error": err}
    pick_u = {"fresh": f"U{nonce}q hello", "previous-user-turn": users[-1], "older-user-turn": users[0], "previous-bot-turn": bots[-1]}
    user = pick_u[ua]
    bot = None
    if ba is not None:
        bot = {"fresh": f"B{nonce}q supplied answer", "previous-bot-turn": bots[-1], "previous-user-turn": users[-1], "user-text-of-this-call": user}[ba]
    verdicts, calls, log, reply, rej = {"ret1": "A"}, [], [], None, None
    if "input" in sel:
        v, c, cur, rej = fold(IN_ORDER, in_row, user, f"RWU{nonce}q rewritten", users[-1])
        verdicts.update(v)
        calls += c
        log += [("input", r, r == rej) for r, _ in c]
        reply = f"REFUSED-{rej}" if rej else cur
    if "output" in sel and not rej:
        v, c, cur, rej_o = fold(OUT_ORDER, out_row, bot, f"RWB{nonce}q rewritten", bots[-1])
        verdicts.update(v)
        calls += c
        log += [("output", r, r == rej_o) for r, _ in c]
        reply = f"REFUSED-{rej_o}" if rej_o else cur
        rej = rej_o
    msgs = list(hist) + [{"role": "user", "content": user}]
    if bot is not None:
        msgs.append({"role": "assistant", "content": bot})
    if source == "messages":
        world.rails.events_history_cache.clear()
    turn = rw.run_turn(world, msgs, verdicts, lambda task, prompt, i: "UNEXPECTED-LLM-CALL",
                       options={"rails": list(subset), "log": {"activated_rails": True}}, state=state)
    return turn, {"calls": calls, "log": log, "reply": reply, "rejected": rej, "rewritten": (in_row or "").startswith("W") or (out_row or "").startswith("W"),
                  "messages": msgs, "verdicts": verdicts}


def judge(turn, exp):
    if turn.exc is not None:
        return [("generate-raised", repr(turn.exc))]
    out = []
    calls = [(a["rail"], a["text"]) for a in turn.actions]
    if calls != exp["calls"]:
        out.append(("rail-sequence", f"rails invoked {calls}, expected {exp['calls']}"))
    if turn.llm_calls:
        out.append(("llm-generation-without-dialog", f"LLM tasks {[str(c['task']) for c in turn.llm_calls]}"))
    if turn.text != exp["reply"]:
        out.append(("reply-is-not-the-refusal" if exp["rejected"] else "reply-is-not-the-text", f"expected {exp['reply']!r}, got {turn.text!r}"))
    log = getattr(turn.reply, "log", None)
    ar = getattr(log, "activated_rails", None) if log is not None else None
    if ar is None:
        out.append(("no-activated-rails-log", "log.activated_rails missing"))
    else:
        got = [(r.type, r.name, bool(r.stop)) for r in ar if r.type in ("input", "output")]
        if got != exp["log"]:
            out.append(("log-activated-rails", f"log {got}, expected {exp['log']}"))
    return out


def features(ua, ba, in_row, out_row):
    """what a case has beyond fresh texts and fresh rewrites"""
    parts = []
    if ua != "fresh":
        parts.append(f"user-text-is-{ua}")
    if ba not in (None, "fresh"):
        parts.append(f"bot-message-is-{ba}")
    if in_row and "W>" in in_row:
        parts.append("user-text-rewritten-into-previous-user-turn")
    if out_row and "W>" in out_row:
        parts.append("bot-message-rewritten-into-previous-bot-turn")
    return parts


def explore(task):
    _tag, source, k, subset = task
    res = {"evaluations": 0, "rails_only_cases": 0, "blocked_cases": 0, "rewritten_cases": 0, "history_cases": 0, "history_repeated_text_cases": 0,
           "two_call_cases": 0, "viol": []}
    world = make_world()
    seen, failed = set(), set()
    # one earlier conversation per task (its texts are unique to the task); every case continues it
    tag = f"{source[0]}{k}{''.join(c[0] for c in subset)}"
    shared = build_history(world, source, k, tag)
    key = "+".join(subset)
    n = 0
    for ua, ba, in_row, out_row in cases(source, k, subset):
        n += 1
        turn, exp = run_case(world, source, k, subset, ua, ba, in_row, out_row, f"{tag}n{n}", shared=shared)
        info = {"engine": "E3-world", "prop": "C16", "part": "history", "source": source, "earlier_exchanges": k, "subset": list(subset),
                "user_alias": ua, "bot_alias": ba, "in_row": in_row, "out_row": out_row}
        if turn is None:
            sig = f"generate-raised:history-from-{source}:earlier-rails-only-call"
            if sig not in seen:
                seen.add(sig)
                res["viol"].append((sig, exp["error"], info))
            continue
        res["evaluations"] += 1
        res["history_cases"] += 1
        if source != "messages":
            res["two_call_cases"] += 1
        if features(ua, ba, in_row, out_row):
            res["history_repeated_text_cases"] += 1
        res["blocked_cases" if exp["rejected"] else "rails_only_cases"] += 1
        if exp["rewritten"]:
            res["rewritten_cases"] += 1
        if "sample" not in res and turn.exc is None and ua == "previous-user-turn":
            res["sample"] = {"family": "conversation-history", "source": source, "messages": exp["messages"], "subset": list(subset), "in_row": in_row, "out_row": out_row,
                             "observed_reply": turn.text, "rails_invoked": [[a.get("rail"), a["text"]] for a in turn.actions]}
        feats = features(ua, ba, in_row, out_row)
        for stem, what in judge(turn, exp)[:1]:
            # a case that repeats a feature which already fails on its own is a consequence of that finding
            if "*" in failed or any(f in failed for f in feats):
                continue
            if len(feats) <= 1:
                failed.add(feats[0] if feats else "*")
            sig = f"{stem}:history-from-{source}:{'+'.join(feats) or 'fresh-texts'}:{key}"
            if sig in seen:
                continue
            seen.add(sig)
            res["viol"].append((sig, f"{k} earlier exchange(s) reaching the call through {source}; rails {list(subset)}; user text {ua}, bot message {ba}; "
                                     f"verdict rows in={in_row} out={out_row}; messages {exp['messages']}: {what}", info))
    return res


def tasks():
    ts = [("history", s, k, sub) for s in SOURCES for k in (2, 1) for sub in SUBSETS]
    ts.sort(key=lambda t: -len(cases(t[1], t[2], t[3])))
    return ts


def replay(rp):
    world = make_world()
    turn, exp = run_case(world, rp["source"], rp["earlier_exchanges"], tuple(rp["subset"]), rp["user_alias"], rp["bot_alias"], rp["in_row"], rp["out_row"], "replay")
    if turn is None:
        print("earlier call failed:", exp["error"])
        print(rp["what"])
        return 0
    print("history through", rp["source"], "| options rails", rp["subset"], "| messages of the call:", exp["messages"])
    print("verdicts", exp["verdicts"])
    print("reply", repr(turn.text), "expected", repr(exp["reply"]), "| exception:", repr(turn.exc))
    print("rails invoked:", [(a.get("rail"), a["text"]) for a in turn.actions], "expected", exp["calls"], "| llm:", [str(c["task"]) for c in turn.llm_calls])
    log = getattr(turn.reply, "log", None)
    if log is not None:
        print("activated_rails:", [(r.type, r.name, r.stop) for r in log.activated_rails], "expected", exp["log"])
    for stem, what in judge(turn, exp):
        print("  ", stem, what)
    print(rp["what"])
    return 0
