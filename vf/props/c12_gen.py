"""C12 - program generators (SmallCheck style: *all* programs of a grammar up to a node
bound, smallest first) for Colang 2.x and 1.0, plus product-space "rich statement x context"
families and a few curated programs.

Control grammar (both versions), cost in nodes:
    block   ::= stmt+ [terminator]            terminator only as last statement of a block
    stmt    ::= LEAF                                  1
              | if block [else block]                1 (+1 for the else branch) + bodies
              | while block                          1 + body      (break/continue allowed inside)
              | when S block [or when S block] [else block]   1 (+1 per extra branch) + bodies
    terminator ::= return | abort | (inside while) break | continue        1
Leaf / spec names are assigned by occurrence (E0, E1, ... ; when-specs cycle event, failing
flow g, finishing flow f), so the enumeration is over *structures*.
"""
from __future__ import annotations

import functools
import itertools


# ---------------------------------------------------------------- structures
def compositions(n, k):
    if k == 1:
        if n >= 1:
            yield (n,)
        return
    for first in range(1, n - k + 2):
        for rest in compositions(n - first, k - 1):
            yield (first,) + rest


def _make2(leaves, terms, loopterms, when_forms, if_else=True):
    @functools.lru_cache(None)
    def stmts(n, inloop):
        out = []
        if n == 1:
            out += [(s,) for s in leaves]
        if n >= 2:
            for b in blocks(n - 1, True):
                out.append(("while", b))
            for nb in ((1, 2) if if_else else (1,)):
                rest = n - 1 - (nb - 1)
                if rest < nb:
                    continue
                for comp in compositions(rest, nb):
                    for bodies in itertools.product(*[blocks(c, inloop) for c in comp]):
                        out.append(("if", bodies))
            for ncase, haselse in when_forms:
                nb = ncase + (1 if haselse else 0)
                rest = n - 1 - (nb - 1)
                if rest < nb:
                    continue
                for comp in compositions(rest, nb):
                    for bodies in itertools.product(*[blocks(c, inloop) for c in comp]):
                        out.append(("when", ncase, bodies, haselse))
        return tuple(out)

    @functools.lru_cache(None)
    def seqs(n, inloop):
        """sequences of non-terminator statements of total cost n (n may be 0)"""
        if n == 0:
            return ((),)
        out = []
        for first in range(1, n + 1):
            for s in stmts(first, inloop):
                for rest in seqs(n - first, inloop):
                    out.append((s,) + rest)
        return tuple(out)

    @functools.lru_cache(None)
    def blocks(n, inloop):
        out = list(seqs(n, inloop))
        tt = tuple(terms) + (tuple(loopterms) if inloop else ())
        for sq in seqs(n - 1, inloop):
            for t in tt:
                out.append(sq + ((t,),))
        return tuple(out)

    return blocks


V2_BLOCKS = _make2(
    leaves=("match",), terms=("return", "abort"), loopterms=("break", "continue"),
    when_forms=((1, False), (1, True), (2, False), (2, True)),
)
V1_BLOCKS = _make2(
    leaves=("user", "bot"), terms=("return",), loopterms=("break", "continue"),
    when_forms=((1, False), (2, False)),
)


def v2_structures(bound):
    for n in range(1, bound + 1):
        for b in V2_BLOCKS(n, False):
            yield n, b


def v1_structures(bound):
    for n in range(1, bound + 1):
        for b in V1_BLOCKS(n, False):
            yield n, b


# ---------------------------------------------------------------- Colang 2.x rendering
V2_HELPERS = (
    "flow f\n  match F()\n\n"
    "flow g\n  match G()\n  abort\n\n"
    "flow h\n  match H()\n\n"
)
WHEN_SPECS_V2 = ("E{k}()", "g", "f")


class _Ctr:
    def __init__(self):
        self.ev = 0
        self.when = 0


def render_v2_block(block, ind, c, out):
    pad = "  " * ind
    for s in block:
        k = s[0]
        if k == "match":
            out.append(f"{pad}match E{c.ev}()")
            c.ev += 1
        elif k in ("return", "abort", "break", "continue"):
            out.append(pad + k)
        elif k == "while":
            out.append(f"{pad}while $c")
            render_v2_block(s[1], ind + 1, c, out)
        elif k == "if":
            out.append(f"{pad}if $c")
            render_v2_block(s[1][0], ind + 1, c, out)
            if len(s[1]) > 1:
                out.append(pad + _else_kw(s[1][1]))
                render_v2_block(s[1][1], ind + 1, c, out)
        elif k == "when":
            _, ncase, bodies, haselse = s
            for i in range(ncase):
                spec = WHEN_SPECS_V2[c.when % 3].format(k=c.ev)
                if "E" in spec:
                    c.ev += 1
                c.when += 1
                out.append(f"{pad}{'when' if i == 0 else 'or when'} {spec}")
                render_v2_block(bodies[i], ind + 1, c, out)
            if haselse:
                out.append(pad + _else_kw(bodies[-1]))
                render_v2_block(bodies[-1], ind + 1, c, out)
        else:
            raise ValueError(s)


def _else_kw(block):
    # the 2.x lexer reads "else<newline><indent>if" as the `else if` token (a layout quirk that
    # belongs to C13); `else:` keeps such programs inside the accepted language
    return "else:" if block[0][0] == "if" else "else"


def render_v2(block):
    out = ["flow main"]
    render_v2_block(block, 1, _Ctr(), out)
    return V2_HELPERS + "\n".join(out) + "\n"


# ---- rich statements / groups ------------------------------------------------
def shapes(k):
    """alternating n-ary and/or trees with k leaves ('L' = leaf)"""
    if k == 1:
        return [("L",)]
    out = []

    def comps(n):
        if n == 0:
            yield ()
            return
        for first in range(1, n + 1):
            for rest in comps(n - first):
                yield (first,) + rest

    for op in ("and", "or"):
        other = "or" if op == "and" else "and"
        for comp in comps(k):
            if len(comp) < 2:
                continue
            opts = []
            for cc in comp:
                opts.append([("L",)] if cc == 1 else [s for s in shapes(cc) if s[0] == other])
            for kids in itertools.product(*opts):
                out.append((op,) + kids)
    return out


def has_or(t):
    return t[0] == "or" or (t[0] == "and" and any(has_or(x) for x in t[1:]))


def show_shape(t, leaf, ctr, top=True):
    if t[0] == "L":
        s = leaf(ctr[0])
        ctr[0] += 1
        return s
    s = f" {t[0]} ".join(show_shape(x, leaf, ctr, False) for x in t[1:])
    return s if top else f"({s})"


FLOWS = ("f", "g", "h", "f")
ACTIONS = ("UtteranceBotAction(script=\"a\")", "GestureBotAction(gesture=\"b\")",
           "UtteranceBotAction(script=\"c\")", "GestureBotAction(gesture=\"d\")")
LEAF_KINDS = {
    "ev": lambda i: f"E{i}()",
    "fl": lambda i: FLOWS[i % 4],
    "ac": lambda i: ACTIONS[i % 4],
    "mixed": lambda i: (FLOWS[i % 4] if i % 2 == 0 else f"M{i}()"),
    "flac": lambda i: (FLOWS[i % 4] if i % 2 == 0 else ACTIONS[i % 4]),
}
GROUP_OPS = (
    ("match", "ev", True), ("await", "fl", True), ("await", "ac", True), ("await", "flac", True),
    ("start", "fl", True), ("start", "ac", True), ("send", "ev", True),
    ("activate", "fl", False), ("deactivate", "fl", False),
)

SIMPLE_RICH = (
    "send X()", "start f", "start f as $r", "await f", "await g", "$v = await f", "await f as $r",
    "activate f", "deactivate f", "await p 1", "await p(a=2)", "activate p(a=3)",
    "await UtteranceBotAction(script=\"a\")", "start UtteranceBotAction(script=\"a\") as $a",
    "$v = await UtteranceBotAction(script=\"a\")",
    "lbl:", "start_new_flow_instance:", "$v = 1", "log \"x\"", "print \"x\"", "priority 0.5",
    "global $gv", "pass", "match E0() as $e", "$v = ...\"say hi\"", "match UtteranceBotAction.Finished()",
    "$v = match E0()", "match E0(x=1)", "send X(a=1)", "f", "UtteranceBotAction(script=\"a\")",
    "match f.Finished()", "\"\"\"doc\"\"\"",
)
RICH_HELPERS = V2_HELPERS + "flow p $a $b=1\n  match P()\n\n"


def rich_statements(kmax):
    """list of (id, [lines]) of single rich statements (may span several lines)"""
    out = []
    for s in SIMPLE_RICH:
        out.append((s, [s]))
    for op, kind, allow_or in GROUP_OPS:
        for k in range(2, kmax + 1):
            for sh in shapes(k):
                if not allow_or and has_or(sh):
                    continue
                txt = f"{op} " + show_shape(sh, LEAF_KINDS[kind], [0])
                out.append((txt, [txt]))
    # when forms: first spec = kind x shape, optional second simple case, optional else
    for kind in ("ev", "fl", "ac", "mixed"):
        for k in range(1, kmax + 1):
            if kind == "mixed" and k == 1:
                continue
            for sh in shapes(k):
                spec = show_shape(sh, LEAF_KINDS[kind], [0])
                for two in (False, True):
                    for els in (False, True):
                        lines = [f"when {spec}", "  match W0()"]
                        if two:
                            lines += ["or when W9()", "  match W1()"]
                        if els:
                            lines += ["else", "  match W2()"]
                        out.append((f"when {spec}|two={int(two)}|else={int(els)}", lines))
    return out


def _ind(lines, n):
    return ["  " * n + ln for ln in lines]


V2_CONTEXTS = ("top", "while", "while_if_break", "when_body", "when_else", "subflow_if_return",
               "while_when_continue")


def _else_text(lines):
    # (see _else_kw)
    return "else:" if lines[0].startswith("if ") else "else"


def in_context_v2(ctx, lines):
    if ctx == "top":
        body = _ind(lines, 1) + ["  match Z()"]
    elif ctx == "while":
        body = ["  while $c"] + _ind(lines, 2) + ["    match Z()"]
    elif ctx == "while_if_break":
        body = ["  while $c", "    if $c"] + _ind(lines, 3) + ["      break", "    match Z()"]
    elif ctx == "when_body":
        body = ["  when E9()"] + _ind(lines, 2) + ["  else", "    match Z()"]
    elif ctx == "when_else":
        body = ["  when g", "    match Z()", "  " + _else_text(lines)] + _ind(lines, 2)
    elif ctx == "while_when_continue":
        body = ["  while $c", "    when g", "      continue", "    " + _else_text(lines)] + _ind(lines, 3) + ["    match Z()"]
    elif ctx == "subflow_if_return":
        sub = ["flow q", "  if $c"] + _ind(lines, 2) + ["    return", "  else", "    abort", ""]
        return RICH_HELPERS + "\n".join(sub) + "\nflow main\n  await q\n  match Z()\n"
    else:
        raise ValueError(ctx)
    return RICH_HELPERS + "flow main\n" + "\n".join(body) + "\n"


def pair_v2(l1, l2):
    return RICH_HELPERS + "flow main\n" + "\n".join(_ind(l1, 1) + _ind(l2, 1)) + "\n  match Z()\n"


CURATED_V2 = (
    # the regression anchors: docs / tests style programs
    "flow main\n  match E()\n",
    "flow a\n  match E()\n  abort\n\nflow main\n  while True\n    when a\n      send X()\n    else\n      send Y()\n    match Z()\n",
    "flow main\n  if $c\n    match A()\n  elif $c\n    match B()\n  elif $c\n    match C()\n  else\n    match D()\n",
    "flow main\n  while $c\n    while $c\n      if $c\n        break\n      elif $c\n        continue\n      match A()\n    if $c\n      continue\n    break\n",
    "flow a $x $y=2 -> $r=1\n  match A()\n  return 3\n\nflow main\n  $v = await a 1\n  $w = await a(x=1, y=3)\n  activate a 5\n  match Z()\n",
    "@loop(\"x\")\nflow a\n  priority 0.3\n  global $gg\n  log \"l\"\n  print \"p\"\n  match A()\n\n@active\nflow b\n  match B()\n\nflow main\n  activate a and b\n  match Z()\n",
    "flow a\n  match A()\n  start_new_flow_instance:\n  match B()\n\nflow main\n  activate a\n  match Z()\n",
    "flow main\n  match (A() or B()) and (C() or D())\n  await (UtteranceBotAction(script=\"a\") or GestureBotAction(gesture=\"g\")) and UtteranceBotAction(script=\"b\")\n",
    "flow a\n  match A()\n\nflow b\n  match B()\n\nflow main\n  when (a or b) and E()\n    when a and b\n      break\n    else\n      continue\n  or when UtteranceBotAction(script=\"x\")\n    return\n  else\n    abort\n",
    "flow main\n  break\n  continue\n  match Z()\n",
    # `when` with an or-group + else inside a loop: on the second iteration the head left waiting
    # at WaitForHeads by the first one is counted again (heads of one flow interfere: the else
    # branch's EndScope runs while sibling heads are alive).  The compiled flow is closed; the
    # binding has to accept the scope sets of such heads (see c12_dyn._scopes_stripped).
    "flow g\n  match G()\n  abort\n\nflow k\n  match K()\n  abort\n\nflow main\n  while True\n"
    "    when g or k\n      send Then()\n    else\n      send Else()\n    match Z()\n",
    # the else body of a `when` with two cases is emitted once per case: a break/continue in it must
    # not be shared between the copies (first seen at control-grammar size 7)
    "flow g\n  match G()\n  abort\n\nflow main\n  when E0()\n    match E1()\n  or when g\n    return\n"
    "  else\n    while $c\n      break\n",
    "flow g\n  match G()\n  abort\n\nflow main\n  while $c\n    when E0()\n      match E1()\n    or when g\n"
    "      match E2()\n    else:\n      if $c\n        continue\n      break\n    match Z()\n",
)


# ---------------------------------------------------------------- Colang 1.0 rendering
def render_v1_block(block, ind, c, out):
    pad = "  " * ind
    for s in block:
        k = s[0]
        if k == "user":
            out.append(f"{pad}user u{c.ev}")
            c.ev += 1
        elif k == "bot":
            out.append(f"{pad}bot b{c.ev}")
            c.ev += 1
        elif k in ("return", "break", "continue"):
            out.append(pad + k)
        elif k == "while":
            out.append(f"{pad}while $c")
            render_v1_block(s[1], ind + 1, c, out)
        elif k == "if":
            out.append(f"{pad}if $c")
            render_v1_block(s[1][0], ind + 1, c, out)
            if len(s[1]) > 1:
                out.append(f"{pad}else")
                render_v1_block(s[1][1], ind + 1, c, out)
        elif k == "when":
            _, ncase, bodies, _ = s
            for i in range(ncase):
                out.append(f"{pad}{'when' if i == 0 else 'else when'} user w{c.ev}")
                c.ev += 1
                render_v1_block(bodies[i], ind + 1, c, out)
        else:
            raise ValueError(s)


def render_v1(block):
    out = ["define flow t"]
    render_v1_block(block, 1, _Ctr(), out)
    return "\n".join(out) + "\n"


V1_RICH = (
    ["$v = 1"], ["execute act"], ["$r = execute act(a=1)"], ["do sub"], ["stop"], ["abort"], ["pass"],
    ["event Foo"], ["check $v"], ["label l1", "user ul", "goto l1"], ["goto l2", "bot x", "label l2"],
    ["if $c", "  bot a", "else if $d", "  bot b", "else", "  bot c"],
    ["if $c", "  bot a", "else if $d", "  bot b"],
    ["any", "  user a", "  user b"], ["infer user c"], ["bot x", "  \"hello\""], ["$v = ..."],
    ["when user a", "  bot b", "else when bot c", "  user d", "else when user e", "  bot f"],
    ["user a or user b"], ["return"], ["done"], ["break"], ["continue"],
    ["while $c", "  if $d", "    break", "  else", "    continue"],
    ["user x", "  $y = 2", "bot z"], ["meta", "  priority: 2"],
)
V1_CONTEXTS = ("top", "while", "while_if", "when_body", "while_while", "if_else", "subflow", "first")


def in_context_v1(ctx, lines):
    if ctx == "top":
        body = ["  user start"] + _ind(lines, 1) + ["  bot end"]
    elif ctx == "first":
        body = _ind(lines, 1) + ["  bot end"]
    elif ctx == "while":
        body = ["  user start", "  while $c"] + _ind(lines, 2) + ["    user more"]
    elif ctx == "while_if":
        body = ["  user start", "  while $c", "    if $d"] + _ind(lines, 3) + ["    else", "      break"]
    elif ctx == "when_body":
        body = ["  when user a"] + _ind(lines, 2) + ["  else when user b", "    bot c"]
    elif ctx == "while_while":
        body = ["  user start", "  while $c", "    while $d"] + _ind(lines, 3) + ["      break", "    continue"]
    elif ctx == "if_else":
        body = ["  user start", "  if $c", "    bot a", "  else"] + _ind(lines, 2)
    elif ctx == "subflow":
        return "define subflow sub2\n" + "\n".join(_ind(lines, 1)) + "\n\ndefine subflow sub\n  bot s\n"
    else:
        raise ValueError(ctx)
    return "define flow t\n" + "\n".join(body) + "\n\ndefine subflow sub\n  bot s\n"


def pair_v1(l1, l2):
    return "define flow t\n  user start\n" + "\n".join(_ind(l1, 1) + _ind(l2, 1)) + "\n\ndefine subflow sub\n  bot s\n"


# ---------------------------------------------------------------- multi-branch `when` groups with unequal branch lengths
def when_family(version, max_cases, max_len):
    """3..max_cases branches, every combination of branch lengths 1..max_len, at the end of the flow / followed by a
    statement / inside a loop / with a terminator in one branch"""
    for ncase in range(3, max_cases + 1):
        for lens in itertools.product(range(1, max_len + 1), repeat=ncase):
            for ctx in ("end", "followed", "loop"):
                for haselse in ((False,) if version == "1.0" else (False, True)):
                    lines, k = [], 0
                    for i, n in enumerate(lens):
                        if version == "1.0":
                            lines.append(f"{'when' if i == 0 else 'else when'} user w{i}")
                            body = [f"{'bot' if j % 2 == 0 else 'user'} x{i}{j}" for j in range(n)]
                        else:
                            lines.append(f"{'when' if i == 0 else 'or when'} W{i}()")
                            body = [f"match X{i}{j}()" for j in range(n)]
                        lines += ["  " + b for b in body]
                        k += n
                    if haselse:
                        lines += ["else", "  match Y()"]
                    if version == "1.0":
                        if ctx == "end":
                            body = ["  user start"] + _ind(lines, 1)
                        elif ctx == "followed":
                            body = ["  user start"] + _ind(lines, 1) + ["  bot end"]
                        else:
                            body = ["  user start", "  while $c"] + _ind(lines, 2)
                        yield (ncase, lens, ctx, haselse), "define flow t\n" + "\n".join(body) + "\n"
                    else:
                        if ctx == "end":
                            body = _ind(lines, 1)
                        elif ctx == "followed":
                            body = _ind(lines, 1) + ["  match Z()"]
                        else:
                            body = ["  while $c"] + _ind(lines, 2)
                        yield (ncase, lens, ctx, haselse), V2_HELPERS + "flow main\n" + "\n".join(body) + "\n"


# ---------------------------------------------------------------- Colang 1.0: checkpoints (`label`) and `goto`
# All sequences of atoms up to a length; a checkpoint is defined at most once and every goto refers to a
# checkpoint that is defined somewhere in the flow (before or after it) - anything else is refused by the loader.
# Several gotos may refer to one checkpoint, from either side, directly or out of / into a nested block.
GOTO_ATOMS = ("X", "La", "Lb", "Ga", "Gb", "IGa", "IGb", "ILa")
GOTO_CONTEXTS = ("top", "while", "if_else", "when_body")
_GOTO_TEXT = {
    "La": ["label a"], "Lb": ["checkpoint b"], "Ga": ["goto a"], "Gb": ["go to b"],
    "IGa": ["if $c", "  goto a"], "IGb": ["if $c", "  goto b"], "ILa": ["if $c", "  label a"],
}


def _goto_seq_ok(s):
    la = s.count("La") + s.count("ILa")
    lb = s.count("Lb")
    if la > 1 or lb > 1 or la + lb == 0:
        return False
    if la == 0 and ("Ga" in s or "IGa" in s):
        return False
    if lb == 0 and ("Gb" in s or "IGb" in s):
        return False
    return True


def goto_sequences(length):
    return [s for s in itertools.product(GOTO_ATOMS, repeat=length) if _goto_seq_ok(s)]


def render_goto_v1(seq, ctx):
    lines = []
    for i, a in enumerate(seq):
        if a == "X":
            lines.append(f"bot x{i}" if i % 2 == 0 else f"user x{i}")
        else:
            lines += _GOTO_TEXT[a]
    if ctx == "top":
        body = ["  user start"] + _ind(lines, 1) + ["  bot end"]
    elif ctx == "while":
        body = ["  user start", "  while $c"] + _ind(lines, 2) + ["  bot end"]
    elif ctx == "if_else":
        body = ["  user start", "  if $c", "    bot t", "  else"] + _ind(lines, 2) + ["  bot end"]
    elif ctx == "when_body":
        body = ["  when user a"] + _ind(lines, 2) + ["  else when user b", "    bot c"]
    else:
        raise ValueError(ctx)
    return "define flow t\n" + "\n".join(body) + "\n"


def n_gotos(seq):
    return sum(1 for a in seq if a in ("Ga", "Gb", "IGa", "IGb"))


# ---------------------------------------------------------------- Colang 2.x: `when` whose case is an or-group x control-flow bodies
# `_expand_when_stmt_element` emits the case body once per or-group of the case and the else body once per
# case (labels of the statement are then defined several times, the table keeps the last one): every block
# of the control grammar up to a node bound is placed in such a case / else body, at top level and in a loop.
WHEN_OR_SPECS = ("E0() or E1()", "f or g", "(E0() and E1()) or g", "E0() or E1() or h")
WHEN_OR_FORMS = ((False, False), (False, True), (True, False), (True, True))   # (second case, else)


def when_or_family(max_body):
    """yields (key, source)"""
    for ctx in ("top", "loop"):
        for n in range(1, max_body + 1):
            blocks = V2_BLOCKS(n, ctx == "loop")
            for bi, b in enumerate(blocks):
                for si, spec in enumerate(WHEN_OR_SPECS):
                    for two, els in WHEN_OR_FORMS:
                        for where in (("case", "else") if els else ("case",)):
                            c = _Ctr()
                            c.ev = 10
                            body = []
                            render_v2_block(b, 0, c, body)
                            simple = ["match W0()"]
                            lines = [f"when {spec}"] + _ind(body if where == "case" else simple, 1)
                            if two:
                                lines += ["or when W9() or g"] + _ind(simple, 1)
                            if els:
                                lines += [_else_kw(b) if where == "else" else "else"] + _ind(
                                    body if where == "else" else simple, 1)
                            if ctx == "top":
                                text = _ind(lines, 1) + ["  match Z()"]
                            else:
                                text = ["  while $c"] + _ind(lines, 2) + ["    match Z()"]
                            yield ((ctx, n, bi, si, int(two), int(els), where),
                                   V2_HELPERS + "flow main\n" + "\n".join(text) + "\n")


# ---------------------------------------------------------------- Colang 2.x: the edge of the accepted language
# "Every flow the loader accepts ... is closed": the statements above are (almost) all accepted.  This family is the
# full product  operator x kind of operand x group shape x statement form,  whether or not an expansion rule supports
# the combination (`stop` on anything, `activate` / `deactivate` on an or-group, `match` on a flow, `send` on an
# action, `await` on an event, a variable reference as operand, ...), plus the bare loop exits, each in every nesting
# context.  The oracle is "rejected by the loader, or compiled into a closed flow": a rule that refuses a statement
# must make the loader refuse the flow - it must not leave the statement in the compiled flow.
EDGE_OPS = ("match", "await", "start", "stop", "activate", "deactivate", "send")
EDGE_KINDS = ("ev", "fl", "ac", "var", "fev", "vev")
EDGE_LEAVES = dict(LEAF_KINDS)
EDGE_LEAVES.update({
    "var": lambda i: f"$r{i}",
    "fev": lambda i: FLOWS[i % 4] + ".Finished()",
    "vev": lambda i: f"$r{i}.Finished()",
})
EDGE_FORMS = ("stmt", "assign", "bare", "when", "orwhen")
EDGE_LOOP_EXITS = (
    ("break", ["break"]), ("continue", ["continue"]),
    ("if/break", ["if $c", "  break"]), ("if/continue/else/break", ["if $c", "  continue", "else", "  break"]),
)


def edge_statements(kmax):
    """list of (id, [lines], meta); meta = dict(op=, kind=, form=, leaves=)"""
    out = []
    for k in range(1, kmax + 1):
        for sh in shapes(k):
            for kind in EDGE_KINDS:
                spec = show_shape(sh, EDGE_LEAVES[kind], [0])
                # the references are bound first (the loader does not need that, the interpreter would)
                pre = [f"start {FLOWS[i % 4]} as $r{i}" for i in range(k)] if kind in ("var", "vev") else []
                for op in EDGE_OPS:
                    out.append((f"{op} {spec}", pre + [f"{op} {spec}"], dict(op=op, kind=kind, form="stmt", leaves=k)))
                    out.append((f"$v = {op} {spec}", pre + [f"$v = {op} {spec}"],
                                dict(op=op, kind=kind, form="assign", leaves=k)))
                if kind not in ("var", "vev"):     # (a statement cannot begin with a variable: that is an assignment)
                    out.append((f"(bare) {spec}", pre + [spec], dict(op="(none)", kind=kind, form="bare", leaves=k)))
                out.append((f"when {spec}", pre + [f"when {spec}", "  match W0()"],
                            dict(op="when", kind=kind, form="when", leaves=k)))
                out.append((f"when W8() or when {spec}",
                            pre + ["when W8()", "  match W0()", f"or when {spec}", "  match W1()", "else", "  match W2()"],
                            dict(op="when", kind=kind, form="orwhen", leaves=k)))
    for sid, lines in EDGE_LOOP_EXITS:
        out.append((sid, list(lines), dict(op="loop-exit", kind="-", form="stmt", leaves=0)))
    return out


# ---------------------------------------------------------------- Colang 1.0: flow declarations (`priority` / `meta`) anywhere
# The 1.0 control grammar with a third leaf: a flow-level declaration statement (`priority N`, or a `meta` block),
# which the parser accepts at every statement position - at the top of the flow, and inside the then / else block of an
# `if`, a `while` body, a `when` branch.  The parser turns it into a `meta` element at the front of the block it was
# written in; the loader of the runtime moves the declarations of a flow to the flow level.  All programs up to the
# node bound that contain at least one declaration, each under every flow header (the header modifiers are a `meta`
# element of their own at the top of the flow) and with both spellings leading.
V1M_BLOCKS = _make2(
    leaves=("user", "bot", "prio"), terms=("return",), loopterms=("break", "continue"),
    when_forms=((1, False), (2, False)),
)
V1M_HEADERS = (("flow", "define flow t"), ("subflow", "define subflow t"), ("extension", "define extension flow t"))
V1M_PRIO_FORMS = (("priority {v}",), ("meta", "  priority: {v}"))
V1M_PRIO_VALUES = ("2", "0.5", "3")


def has_prio(block):
    for s in block:
        if s[0] == "prio":
            return True
        if s[0] == "while" and has_prio(s[1]):
            return True
        if s[0] == "if" and any(has_prio(b) for b in s[1]):
            return True
        if s[0] == "when" and any(has_prio(b) for b in s[2]):
            return True
    return False


@functools.lru_cache(None)
def v1_meta_structures(n):
    """all blocks of exactly n nodes of the 1.0 control grammar + declaration leaf that contain a declaration"""
    return tuple(b for b in V1M_BLOCKS(n, False) if has_prio(b))


def _render_v1m_block(block, ind, c, out, phase):
    pad = "  " * ind
    for s in block:
        k = s[0]
        if k == "prio":
            form = V1M_PRIO_FORMS[(c.prio + phase) % len(V1M_PRIO_FORMS)]
            val = V1M_PRIO_VALUES[c.prio % len(V1M_PRIO_VALUES)]
            out.extend(pad + ln.format(v=val) for ln in form)
            c.prio += 1
        elif k == "while":
            out.append(f"{pad}while $c")
            _render_v1m_block(s[1], ind + 1, c, out, phase)
        elif k == "if":
            out.append(f"{pad}if $c")
            _render_v1m_block(s[1][0], ind + 1, c, out, phase)
            if len(s[1]) > 1:
                out.append(f"{pad}else")
                _render_v1m_block(s[1][1], ind + 1, c, out, phase)
        elif k == "when":
            _, ncase, bodies, _ = s
            for i in range(ncase):
                out.append(f"{pad}{'when' if i == 0 else 'else when'} user w{c.ev}")
                c.ev += 1
                _render_v1m_block(bodies[i], ind + 1, c, out, phase)
        else:
            render_v1_block((s,), ind, c, out)


def render_v1_meta(block, header, phase):
    """-> (source of the program, body of the flow at indentation 0 - the text a `start_flow` event carries)"""
    c = _Ctr()
    c.prio = 0
    body = []
    _render_v1m_block(block, 0, c, body, phase)
    return dict(V1M_HEADERS)[header] + "\n" + "\n".join(_ind(body, 1)) + "\n", "\n".join(body) + "\n"
