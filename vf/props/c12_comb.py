"""C12 - combined Colang 1.0 configurations (`config_a + config_b`).

The configurations are real folders (config.yml + flows.co) in a scratch directory of the run, loaded with
`RailsConfig.from_path` (a configuration made by `from_content` has no `config_path` and cannot be combined) and
joined with `RailsConfig.__add__`, the operation the server applies for a request with several `config_ids`.

What the interpreter of the combined configuration walks over is `RuntimeV1_0(combined).flow_configs`: made by
`RuntimeV1_0._init_flow_configs` from `combined.flows` (the first definition of an id is the one that is kept).
`runtime_flow_configs` runs exactly that method of the host runtime of c12_v1load on the combined configuration
(building a whole RuntimeV1_0 costs ~40 ms; `full_runtime` does it for the smallest pairs and the two must agree).
"""
from __future__ import annotations

import os
import shutil
import tempfile
import warnings

from nemoguardrails import RailsConfig
from nemoguardrails.colang.v1_0.runtime.runtime import RuntimeV1_0

from vf.props import c12_gen2 as gen2
from vf.props import c12_v1load as L


class Scratch:
    """a scratch directory holding configuration folders; removed by close()"""

    def __init__(self):
        self.dir = tempfile.mkdtemp(prefix="vf_c12_comb_")
        self.n = 0

    def load(self, source):
        """-> RailsConfig of a new folder with this flows.co (raises what the loader raises)"""
        p = os.path.join(self.dir, f"cfg{self.n}")
        self.n += 1
        os.makedirs(p)
        with open(os.path.join(p, "config.yml"), "w", encoding="utf-8") as f:
            f.write(gen2.COMB_YAML)
        with open(os.path.join(p, gen2.COMB_FILE), "w", encoding="utf-8") as f:
            f.write(source)
        with warnings.catch_warnings():
            warnings.simplefilter("ignore")
            return RailsConfig.from_path(p)

    def close(self):
        shutil.rmtree(self.dir, ignore_errors=True)


def combine(base, updated):
    with warnings.catch_warnings():
        warnings.simplefilter("ignore")
        return base + updated


def runtime_flow_configs(cfg):
    """{flow id: FlowConfig} as `RuntimeV1_0._init_flow_configs` makes them of cfg.flows (the host runtime's method,
    run on this configuration).  The loader writes flow-level keys into the flow dicts: it gets copies."""
    rt = L.host()
    saved = (rt.config, rt.flow_configs)
    try:
        rt.config = _FlowsOnly([dict(f, elements=list(f["elements"])) for f in cfg.flows])
        rt._init_flow_configs()
        return rt.flow_configs
    finally:
        rt.config, rt.flow_configs = saved


class _FlowsOnly:
    def __init__(self, flows):
        self.flows = flows


def full_runtime(cfg):
    with warnings.catch_warnings():
        warnings.simplefilter("ignore")
        return RuntimeV1_0(cfg).flow_configs
