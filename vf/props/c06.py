"""C06 - flow and action lifetimes are bounded by the parent flow.

Hierarchy programs (templates T1-T4, every slot enumerated) x all event histories up
to a depth x all tie-breaks.  Three monitors evaluated on every reached state:
  orphan      - a listening instance below a finished/failed ancestor
  stop-safety - Stop only for started, unfinished, not yet stopped actions; an unfinished
                started action no listening flow holds any more must have got exactly one Stop
  activation  - listening instance of an activated flow exists <=> one of its activators runs
                (flows with the start_new_flow_instance label behind their first waiting statement: instances that
                passed the label run next to their successor; a flow that executed `deactivate` is no activator any more)
Further families (label-started instances, deactivate, flows reacting to returning Start / Stop events): vf/props/c06_more.py
"""
from __future__ import annotations

import itertools

from vf.engines import v2x
from vf.engines.v2x import Explorer, Violation, sm
from nemoguardrails.colang.v2_x.runtime.flows import FlowStatus, FlowHeadStatus

PROP = "C06"
DONE = (FlowStatus.FINISHED, FlowStatus.STOPPED)


def listening(fs):
    return fs.status in (FlowStatus.WAITING, FlowStatus.STARTING, FlowStatus.STARTED)


def running(fs):
    return fs.status in (FlowStatus.STARTING, FlowStatus.STARTED)


class Lifetime:
    """Generic monitors; `activators` = {activated flow name: [flow names that activate it
    with an `activate` as their first statements]} (static, from the generator)."""

    def __init__(self, activators=None, once_actions=None, main_restarts=False, label_flows=None, gave_up=None):
        self.activators = activators or {}
        self.once_actions = once_actions or {}  # action name -> activated flow that must run once
        self.main_restarts = main_restarts
        # activated flow -> True when its `start_new_flow_instance:` label stands after the first waiting statement
        # (the next instance is then started when the label is passed, the passing instance goes on in parallel),
        # False when it stands before it (the early start is refused; the flow restarts when the instance ends)
        self.label_flows = label_flows or {}
        # activator flow -> marker event it sends right after its `deactivate <flow>` statement: from then on it
        # does not count as an activator any more (static, from the generator)
        self.gave_up = gave_up or {}

    def __call__(self, ex, prev, aev, conc, taken, nxt, pops):
        st = nxt.state
        acts = dict(prev.aux.get("acts", ()))  # uid -> (started, stops, finished, name)
        # -- input: a Finished event for an action
        if isinstance(conc, dict) and conc.get("type", "").endswith("Finished") and "action_uid" in conc:
            u = conc["action_uid"]
            if u in acts:
                s, k, f, n = acts[u]
                acts[u] = (s, k, True, n)
        fin_before = {u for u, v in acts.items() if v[2]}
        started_now, stopped_now = set(), set()
        # -- output: Start / Stop events
        for e in st.outgoing_events:
            t = e["type"]
            u = e.get("action_uid")
            if u is None:
                continue
            if t.startswith("Start") and t.endswith("Action"):
                if u in acts and acts[u][0]:
                    raise Violation("action-started-twice", f"{t} emitted twice for one action", {"event": t})
                acts[u] = (True, 0, False, t[5:])
                started_now.add(u)
                ex.stats.bump("action_starts")
            elif t.startswith("Stop") and t.endswith("Action"):
                ex.stats.bump("action_stops")
                if u not in acts or not acts[u][0]:
                    raise Violation("stop-for-never-started-action", f"{t} for an action that was never started", {"event": t})
                s, k, f, n = acts[u]
                if f:
                    raise Violation("stop-for-finished-action", f"{t} for an action whose Finished event had already been received", {"event": t})
                if k >= 1:
                    if v2x.FEED_BACK[0] and u in started_now and u in stopped_now:
                        # history class: the action was stopped in the very step that started it, i.e. before its Start
                        # event came back as an input event (process_events feeds emitted events back)
                        raise Violation("action-stopped-twice:start-event-returns-after-first-stop",
                                        f"{t} emitted a second time: the first Stop was sent in the step that started the action, "
                                        "then the Start event came back as an input event and a flow holding the action ended", {"event": t})
                    raise Violation("action-stopped-twice", f"{t} emitted a second time", {"event": t})
                stopped_now.add(u)
                acts[u] = (s, k + 1, f, n)
        # -- every started, unfinished, unstopped action must still be held by a listening flow
        holders: dict[str, int] = {}
        for fs in st.flow_states.values():
            if listening(fs) and not (fs.flow_id == "main" and fs.status == FlowStatus.WAITING):
                for u in fs.action_uids:
                    holders[u] = holders.get(u, 0) + 1
        # a Stop while a running flow still holds the action is only legitimate when a
        # when/await-group scope containing the action was closed in this step
        # per flow: actions inside one of its open scopes before / after the step
        scoped_before, scoped_after = {}, {}
        for fs in prev.state.flow_states.values():
            for _fl, ac in fs.scopes.values():
                scoped_before.setdefault(fs.uid, set()).update(ac)
        for fs in st.flow_states.values():
            for _fl, ac in fs.scopes.values():
                scoped_after.setdefault(fs.uid, set()).update(ac)
        prev_acts = dict(prev.aux.get("acts", ()))
        for u, (s, k, f, n) in acts.items():
            if k == 1 and prev_acts.get(u, (0, 0, 0, 0))[1] == 0 and u in prev_acts:
                # flows that still *use* the action: running flows holding it, except those whose
                # when / await-group scope around it was closed in this very step
                users = [fs.flow_id for fs in st.flow_states.values()
                         if listening(fs) and not (fs.flow_id == "main" and fs.status == FlowStatus.WAITING) and u in fs.action_uids
                         and not (u in scoped_before.get(fs.uid, ()) and u not in scoped_after.get(fs.uid, ()))]
                if users:
                    raise Violation("shared-action-stopped-while-still-held",
                                    f"Stop sent for action {n} although running flow(s) {users} still hold it", {"action": n})
        for u, (s, k, f, n) in acts.items():
            if s and not f and k == 0 and holders.get(u, 0) == 0:
                raise Violation("unfinished-action-not-stopped",
                                f"action {n} was started, is unfinished, no running flow holds it, but no Stop was sent", {"action": n})
            if s and not f and k == 0 and holders.get(u, 0) >= 2:
                ex.stats.bump("states_with_shared_running_action")
        nxt.aux["acts"] = tuple(sorted(acts.items()))

        # -- orphans
        if aev[0] == "start_main":
            nxt.aux["main_started"] = True
        for uid, fs in st.flow_states.items():
            if not listening(fs) or fs.flow_id == "main":
                continue
            if fs.status == FlowStatus.WAITING and fs.parent_uid is None:
                continue  # instance created for a StartFlow that nobody picked up yet
            cur = fs
            hops = 0
            while cur is not None and hops < 20:
                hops += 1
                if cur.activated > 0 and cur.flow_id in self.activators:
                    break  # activated reference flow: judged by the activation monitor
                if cur.parent_uid is None:
                    break
                par = st.flow_states.get(cur.parent_uid)
                if par is None:
                    raise Violation("orphan-flow", f"running flow {fs.flow_id}: ancestor instance no longer exists", {})
                if par.status in DONE or (par.flow_id == "main" and par.status == FlowStatus.WAITING):
                    # a child-activated instance hangs below its reference instance
                    raise Violation("orphan-flow",
                                    f"flow {fs.flow_id} ({fs.status.name}) is still running although its ancestor "
                                    f"{par.flow_id} is {par.status.name}", {"flow": fs.flow_id, "ancestor": par.flow_id})
                cur = par
        # -- activation
        gaveup = set(prev.aux.get("gaveup", ()))
        if self.gave_up:
            types = {e["type"] for e in st.outgoing_events}
            for a, marker in self.gave_up.items():
                if marker in types:
                    gaveup.add(a)
            nxt.aux["gaveup"] = tuple(sorted(gaveup))
            if gaveup:
                ex.stats.bump("states_after_a_deactivate_statement")
        for g, acs in self.activators.items():
            alive = False
            for a in acs:
                if a in gaveup:
                    continue
                for inst in st.flow_id_states.get(a, []):
                    if running(inst) or (a == "main" and inst.status != FlowStatus.WAITING):
                        alive = True
            insts = [f for f in st.flow_id_states.get(g, []) if listening(f)]
            # which of the other activators gave their activation up with `deactivate` (history class of the signature)
            after = ""
            if gaveup & set(acs):
                still = [a for a in sorted(gaveup & set(acs)) if any(running(i) for i in st.flow_id_states.get(a, []))]
                # history classes: the flow that executed `deactivate` still runs / has ended since
                after = ":after-deactivate-by-another-activator" if still else ":after-end-of-an-activator-that-had-deactivated"
            if alive and len(insts) == 0:
                raise Violation("activated-flow-not-running" + after,
                                f"flow {g} is activated by a running flow of {[a for a in acs if a not in gaveup]} but has no running instance"
                                + (f" (after {sorted(gaveup)} executed `deactivate {g}`)" if after else ""), {"flow": g})
            if g in self.label_flows and self.label_flows[g]:
                # label after the first waiting statement: instances that passed the label go on in parallel with their
                # successor; at most one instance may be waiting in front of the label
                lab = st.flow_configs[g].element_labels["start_new_flow_instance"]
                fresh = [f for f in insts if all(h.position <= lab for h in f.heads.values())]
                if len(insts) > 1:
                    ex.stats.bump("states_with_label_started_instance_next_to_its_predecessor")
                if alive and len(fresh) > 1:
                    raise Violation("activated-flow-duplicated",
                                    f"activated flow {g} has {len(fresh)} running instances in front of its start_new_flow_instance label", {"flow": g})
            elif alive and len(insts) > 1:
                raise Violation("activated-flow-duplicated",
                                f"activated flow {g} has {len(insts)} running instances", {"flow": g})
            if not alive and insts:
                raise Violation("activated-flow-outlives-activators",
                                f"flow {g} still has a running instance although no activator ({acs}) runs"
                                + (f" ({sorted(gaveup)} executed `deactivate {g}`)" if gaveup & set(acs) else ""), {"flow": g})
            if alive:
                ex.stats.bump("states_with_live_activation")
        for an, g in self.once_actions.items():
            n = sum(1 for (s, k, f, nm) in acts.values() if nm == an)
            if n > 1:
                raise Violation("immediate-activated-flow-ran-again",
                                f"activated flow {g} finishes without waiting but its action {an} was started {n} times", {"flow": g})


# ----------------------------------------------------------------------------- templates
def ind(lines, n=1):
    return "".join("  " * n + l + "\n" for l in lines)


def t1_programs(tier):
    """child/parent/grandparent hierarchy: how the child is started x what the parent holds x how the parent ends."""
    c_first = [["match E2()"], []]
    c_act = [["start ActCAction()"], ["await ActCAction()"], []]
    how_child = ["start c", "await c", "activate c", "start c and d", "await c or d", "when c"]
    p_action = [["start ActPAction()"], ["await ActPAction()"], []]
    p_end = ["finish", "abort", "never"]
    how_parent = ["start p", "await p", "activate p", "when p"]
    if tier == "quick":
        c_act = [["start ActCAction()"], []]
        p_action = [["start ActPAction()"], ["await ActPAction()"]]
    for cf, ca, hc, pa, pe, hp in itertools.product(c_first, c_act, how_child, p_action, p_end, how_parent):
        if not cf and not ca and hc in ("activate c",):
            pass  # immediately finishing activated child (legal, runs once)
        c = "flow c\n" + ind(cf + ca + ["match E3()"] if (cf or ca) else ["send Tick()"])
        if not cf and not ca:
            c = "flow c\n" + ind(["send Tick()"])
        d = "flow d\n" + ind(["match E4()", "start ActDAction()", "match E3()"])
        body = []
        if hc == "when c":
            body += ["when c", "  send Marker()", "or when E4()", "  send Marker2()"]
        else:
            body += [hc]
        body += pa
        body += {"finish": ["match E1()"], "abort": ["match E1()", "abort"], "never": ["match Never()"]}[pe]
        p = "flow p\n" + ind(body)
        if hp == "when p":
            mb = ["when p", "  send MainMarker()", "else", "  send MainElse()", "match Never()"]
        else:
            mb = [hp, "match Never()"]
        main = "flow main\n" + ind(mb)
        activators = {}
        if hc == "activate c":
            activators["c"] = ["p"]
        if hp == "activate p":
            activators["p"] = ["main"]
        once = {}
        yield (c + "\n" + d + "\n" + p + "\n" + main, activators, once,
               ["E1", "E2", "E3", "E4"], [("StopFlow", {"flow_id": "p"})],
               {"t": "T1", "c": cf + ca, "how_child": hc, "p_action": pa, "p_end": pe, "how_parent": hp})


def t2_programs(tier):
    """siblings sharing one identical action, ending at different times."""
    for end1, end2, third in itertools.product(["E2", "E3"], ["E2", "E3"], [False, True]):
        s = ""
        for i, e in ((1, end1), (2, end2)):
            s += f"flow s{i}\n" + ind(["match E1()", "start ActSAction()", f"match {e}()"]) + "\n"
        names = ["s1", "s2"]
        if third:
            s += "flow s3\n" + ind(["match E1()", "start ActSAction()", "match E4()", "abort"]) + "\n"
            names.append("s3")
        main = "flow main\n" + ind([f"start {n}" for n in names] + ["match Never()"])
        yield (s + main, {}, {}, ["E1", "E2", "E3", "E4"],
               [("StopFlow", {"flow_id": "s1"})], {"t": "T2", "ends": [end1, end2], "third": third})


def t3_programs(tier):
    """several activators of one flow; activated flow with / without waiting statements."""
    g_bodies = [
        ["match E2()", "start ActGAction()", "match E3()"],
        ["match E2()"],
        ["start ActGAction()"],            # finishes without ever waiting
        ["send Tick()"],                    # finishes without ever waiting, no action
        ["match E2()", "abort"],
        ["await ActGAction()"],
    ]
    a_ends = [("E1", "E4"), ("E1", "E1")]
    for gb, (e1, e2), nested, a2_end in itertools.product(g_bodies, a_ends, [False, True], ["abort", "finish"]):
        g = "flow g\n" + ind(gb)
        a1 = "flow a1\n" + ind(["activate g", f"match {e1}()"])
        a2 = "flow a2\n" + ind(["activate g", f"match {e2}()"] + (["abort"] if a2_end == "abort" else []))
        if nested:
            main = "flow main\n" + ind(["activate a1", "start a2", "match Never()"])
            activators = {"g": ["a1", "a2"], "a1": ["main"]}
        else:
            main = "flow main\n" + ind(["start a1", "start a2", "match Never()"])
            activators = {"g": ["a1", "a2"]}
        once = {}
        if gb == ["start ActGAction()"] and not nested:
            once = {"ActGAction": "g"}
        yield (g + "\n" + a1 + "\n" + a2 + "\n" + main, activators, once,
               ["E1", "E2", "E3", "E4"], [("StopFlow", {"flow_id": "a1"})],
               {"t": "T3", "g": gb, "ends": [e1, e2], "nested": nested, "a2_end": a2_end})


def t4_programs(tier):
    """scopes: actions / flows started inside when / await-group scopes."""
    forms = [
        ["when Act1Action()", "  send M1()", "or when E1()", "  send M2()", "match E3()"],
        ["when Act1Action() and Act2Action()", "  send M1()", "or when E1()", "  send M2()", "match E3()"],
        ["await Act1Action() or c", "send M1()", "match E3()"],
        ["await Act1Action() and Act2Action()", "send M1()", "match E3()"],
        ["when c", "  send M1()", "or when d", "  send M2()", "else", "  send M3()", "match E3()"],
        ["start Act1Action() as $a", "when $a.Finished()", "  send M1()", "or when E1()", "  send M2()", "match E3()"],
        ["await Act0Action() and (Act1Action() or Act2Action())", "send M1()", "match E3()"],
        ["when E1() and (c or d)", "  send M1()", "match E3()"],
        ["start c and (d or e)", "match E1()", "start c and (d or e)", "match E3()"],
        ["start Act0Action() and (Act1Action() or Act2Action())", "match E1()", "send M1()", "match E3()"],
    ]
    for f, wrap in itertools.product(forms, [False, True]):
        c = "flow c\n" + ind(["match E2()", "start ActCAction()", "match E4()"])
        d = "flow d\n" + ind(["match E4()"]) + "\nflow e\n" + ind(["match E2()", "match E4()"])
        if wrap:
            p = "flow p\n" + ind(f)
            main = "flow main\n" + ind(["start p", "match Never()"])
            internal = [("StopFlow", {"flow_id": "p"})]
        else:
            p = ""
            main = "flow main\n" + ind(f + ["match Never()"])
            internal = []
        yield (c + "\n" + d + "\n" + p + "\n" + main, {}, {}, ["E1", "E2", "E3", "E4"], internal,
               {"t": "T4", "form": f, "wrapped": wrap})


def t5_programs(tier):
    """identical action shared by two flows, one of them holding it inside a when / await-group scope"""
    scoped = [
        ["match E1()", "when ActSAction()", "  send M1()", "or when E2()", "  send M2()", "match E4()"],
        ["match E1()", "await ActSAction() or c", "send M1()", "match E4()"],
        ["match E1()", "start ActSAction() as $a", "when $a.Finished()", "  send M1()", "or when E2()", "  send M2()", "match E4()"],
    ]
    plain = [["match E1()", "start ActSAction()", "match E3()"], ["match E1()", "await ActSAction()", "match E3()"]]
    for a, b, order in itertools.product(scoped, plain, (0, 1)):
        c = "flow c\n" + ind(["match E2()"])
        s1 = "flow s1\n" + ind(a)
        s2 = "flow s2\n" + ind(b)
        names = ["s1", "s2"] if order == 0 else ["s2", "s1"]
        main = "flow main\n" + ind([f"start {n}" for n in names] + ["match Never()"])
        yield (c + "\n" + s1 + "\n" + s2 + "\n" + main, {}, {}, ["E1", "E2", "E3", "E4"], [("StopFlow", {"flow_id": "s2"})],
               {"t": "T5", "scoped": a, "plain": b, "order": order})


def t6_programs(tier):
    """the same flow activated twice by one activator instance (and by two)"""
    for gb, twice_in, ends in itertools.product([["match E2()", "start ActGAction()", "match E3()"], ["match E2()"]], ("a1", "both"), ("finish", "abort")):
        g = "flow g\n" + ind(gb)
        a1 = "flow a1\n" + ind(["activate g", "activate g", "match E1()"] + (["abort"] if ends == "abort" else []))
        a2 = "flow a2\n" + ind(["activate g"] + (["activate g"] if twice_in == "both" else []) + ["match E4()"])
        main = "flow main\n" + ind(["start a1", "start a2", "match Never()"])
        yield (g + "\n" + a1 + "\n" + a2 + "\n" + main, {"g": ["a1", "a2"]}, {}, ["E1", "E2", "E3", "E4"], [("StopFlow", {"flow_id": "a2"})],
               {"t": "T6", "g": gb, "twice_in": twice_in, "ends": ends})


def t7_programs(tier):
    """parent and child (and grandchild) wait for the SAME event: the parent ends on it, which ends the child whose head matched too"""
    c_after = [["start ActCAction()", "match E3()"], ["await ActCAction()"], ["send Tick()", "match E3()"], ["start d", "match E3()"],
               ["activate d", "match E3()"]]
    c_wait = [["match E1()"], ["when E1()", "  send M1()", "or when E2()", "  send M2()"], ["match E1() or E2()"]]
    for cw, ca, pe, deep in itertools.product(c_wait, c_after, ["finish", "abort"], [False, True]):
        c = "flow c\n" + ind(cw + ca)
        d = "flow d\n" + ind(["start ActDAction()", "match E3()"])
        if deep:
            mid = "flow m\n" + ind(["start c", "match E1()", "start ActMAction()", "match E3()"])
            p = "flow p\n" + ind(["start m", "match E1()"] + (["abort"] if pe == "abort" else []))
        else:
            mid = ""
            p = "flow p\n" + ind(["start c", "match E1()"] + (["abort"] if pe == "abort" else []))
        main = "flow main\n" + ind(["start p", "match Never()"])
        activators = {}  # (activate d is not c's first statement: the static activator rule does not apply)
        yield (c + "\n" + d + "\n" + mid + "\n" + p + "\n" + main, activators, {}, ["E1", "E2", "E3"], [("StopFlow", {"flow_id": "p"})],
               {"t": "T7", "c_wait": cw, "c_after": ca, "p_end": pe, "deep": deep})



def t8_programs(tier):
    """action names that contain the verbs of the event protocol (Start / Stop / Finished / Started / Updated) as substrings"""
    names = ["QuickStartBotAction", "NonStopMusicAction", "FinishedGoodsAction", "RestartedServiceAction", "NoChangeBotAction"]
    for an in names:
        for form in ("when-scope", "plain", "shared"):
            if form == "when-scope":
                p = "flow p\n" + ind([f"when {an}()", "  send X1()", "or when E1()", "  send X2()", "match E2()"])
                main = "flow main\n" + ind(["start p", "match Never()"])
                src = p + "\n" + main
            elif form == "plain":
                p = "flow p\n" + ind([f"start {an}()", "match E1()", "match E2()"])
                main = "flow main\n" + ind(["start p", "match Never()"])
                src = p + "\n" + main
            else:
                s1 = "flow s1\n" + ind(["match E1()", f"start {an}()", "match E2()"])
                s2 = "flow s2\n" + ind(["match E1()", f"start {an}()", "match E3()"])
                main = "flow main\n" + ind(["start s1", "start s2", "match Never()"])
                src = s1 + "\n" + s2 + "\n" + main
            yield (src, {}, {}, ["E1", "E2", "E3"], [("StopFlow", {"flow_id": "p"})] if form != "shared" else [], {"t": "T8", "action": an, "form": form})


def t9_programs(tier):
    """a child reacts to the same event as its parent / activator, more specifically (so it is advanced first), and does
    something that is only carried out later in the same step: starts a grandchild, or ends and asks for its restart"""
    for how in ("start c", "await c", "activate c", "start c and d", "start ActPAction()", "await ActPAction()", "start ActPAction() and ActP2Action()"):
        for c_body in (["start ActCAction()", "match Never2()"], ["await ActCAction()"], ["match E3()"]):
            for m_end in ("finish", "abort"):
                c = "flow c\n" + ind(c_body)
                d = "flow d\n" + ind(["start ActDAction()", "match Never2()"])
                p = "flow p\n" + ind(["match Ev(x=1)", how, "match Never()"])
                m = "flow m\n" + ind(["start p", "match Ev()"] + (["abort"] if m_end == "abort" else []))
                main = "flow main\n" + ind(["start m", "match Never()"])
                yield (c + "\n" + d + "\n" + p + "\n" + m + "\n" + main, {}, {}, [("Ev", {"x": 1}), ("Ev", {}), "E3"], [], {"t": "T9", "form": "grandchild", "how": how, "c": c_body, "m_end": m_end})
                # the parent ends through a LATER internal event of the same step: it waits for a sibling of p that finishes on the event
                q = "flow q\n" + ind(["match Ev()"])
                m2 = "flow m\n" + ind(["start p", "start q", "match q.Finished()"] + (["abort"] if m_end == "abort" else []))
                yield (c + "\n" + d + "\n" + p + "\n" + q + "\n" + m2 + "\n" + main, {}, {}, [("Ev", {"x": 1}), ("Ev", {}), "E3"], [],
                       {"t": "T9", "form": "grandchild-parent-ends-through-sibling", "how": how, "c": c_body, "m_end": m_end})
    for f_body in (["start ActFAction()", "match Ev(x=1)"], ["match Ev(x=1)"], ["match Ev(x=1)", "start ActFAction()", "match E3()"]):
        for a_end in ("finish", "abort"):
            for two in (False, True):
                f = "flow f\n" + ind(f_body)
                a = "flow a\n" + ind(["activate f", "match Ev()"] + (["abort"] if a_end == "abort" else []))
                a2 = "flow a2\n" + ind(["activate f", "match E3()"])
                main = "flow main\n" + ind(["start a"] + (["start a2"] if two else []) + ["match Never()"])
                yield (f + "\n" + a + "\n" + (a2 + "\n" if two else "") + main, {"f": ["a", "a2"] if two else ["a"]}, {}, [("Ev", {"x": 1}), ("Ev", {}), "E3"], [],
                       {"t": "T9", "form": "activated", "f": f_body, "a_end": a_end, "two_activators": two})


def explore(task):
    src, activators, once, evnames, internals, info, depth = task[:7]
    with_started = task[7] if len(task) > 7 else False
    # task[8]: the events a step emits are fed back as input events, as RuntimeV2_x.process_events does
    v2x.FEED_BACK[0] = bool(task[8]) if len(task) > 8 else False
    fixed = [("ext", n, {}) if isinstance(n, str) else ("ext", n[0], dict(n[1])) for n in evnames] + [("internal", n, a) for n, a in internals]

    def alphabet(state, node):
        if node.depth == 0:
            return [("start_main",)]
        evs = list(fixed)
        for k in range(min(3, len(v2x.pending_actions(state)))):
            evs.append(("act", k, "Finished", {}))
            if with_started:
                # Started events may arrive late (even after a Stop was sent) or repeatedly
                evs.append(("act", k, "Started", {}))
        return evs

    opts = task[9] if len(task) > 9 else {}
    mon = Lifetime(activators, once, label_flows=opts.get("label_flows"), gave_up=opts.get("gave_up"))
    ex = Explorer(src, alphabet, monitors=[mon], depth=depth, max_states=60000)
    try:
        ex.run()
    finally:
        v2x.FEED_BACK[0] = False
    return v2x.result_of(ex, info)



# ----------------------------------------------------------------------------- binding of the feed-back mode to the real API
def conformance_task(task):
    """The feed-back mode of the explorer emulates what RuntimeV2_x.process_events does with emitted events.  For the
    feed-back programs every history up to `depth` (default tie-breaks) is run BOTH ways - emulation on a State, real
    process_events on the runtime - and the emitted event types of every step must be equal."""
    import asyncio

    from vf.props import c10
    src, evnames, internals, depth, limit = task
    res = {"programs": 1, "histories": 0, "steps": 0, "viol": []}
    try:
        rt = c10._runtime(src)
    except Exception as e:
        res["viol"].append(("harness:conformance-program-rejected", repr(e), {"source": src}))
        return res
    fixed = [("ext", n, {}) if isinstance(n, str) else ("ext", n[0], dict(n[1])) for n in evnames] + [("internal", n, a) for n, a in internals]
    loop = asyncio.new_event_loop()
    try:
        def real_step(state, conc, uid_n):
            v2x.UIDS.n = uid_n
            v2x.CHOICE.begin([])
            ev = conc if isinstance(conc, dict) else {"type": conc.name, **conc.arguments}
            out, st2 = loop.run_until_complete(rt.process_events([ev], state))
            return [e["type"] for e in out], st2, v2x.UIDS.n

        def emul_step(state, conc, uid_n):
            v2x.FEED_BACK[0] = True
            try:
                _p, n2, _ = v2x.step(state, conc, [], uid_n)
            finally:
                v2x.FEED_BACK[0] = False
            return [e["type"] for e in state.outgoing_events], n2

        # start: process_events([]) starts main; the emulation starts main explicitly
        v2x.UIDS.n = 0
        v2x.CHOICE.begin([])
        out_r, st_r = loop.run_until_complete(rt.process_events([], None))
        uid_r = v2x.UIDS.n
        st_e = v2x.init_state(src)
        out_e, uid_e = emul_step(st_e, v2x.resolve_event(st_e, ("start_main",)), v2x.UIDS.n)
        stack = [(st_e, uid_e, st_r, uid_r, ())]
        while stack and res["histories"] < limit:
            se, ue, sr, ur, hist = stack.pop()
            if len(hist) >= depth:
                continue
            evs = list(fixed)
            for k in range(min(2, len(v2x.pending_actions(se)))):
                evs.append(("act", k, "Finished", {}))
            for aev in evs:
                ce, cr = v2x.resolve_event(se, aev), v2x.resolve_event(sr, aev)
                if ce is None or cr is None:
                    if (ce is None) != (cr is None):
                        res["viol"].append(("harness:feed-back-emulation-differs-from-process_events:pending-actions",
                                            f"history {hist + (aev,)}", {"source": src}))
                    continue
                if not isinstance(ce, dict) or not isinstance(cr, dict):
                    continue  # internal events (StopFlow) cannot be sent through process_events as plain dicts
                se2 = v2x.copy_state(se)
                oe, ue2 = emul_step(se2, ce, ue)
                sr2 = v2x.copy_state(sr)
                orr, sr2, ur2 = real_step(sr2, cr, ur)
                res["histories"] += 1
                res["steps"] += 1
                if [t for t in oe] != [t for t in orr]:
                    res["viol"].append(("harness:feed-back-emulation-differs-from-process_events",
                                        f"history {[a[1:3] for a in hist + (aev,)]}: emulation emits {oe}, process_events returns {orr}", {"source": src}))
                    return res
                stack.append((se2, ue2, sr2, ur2, hist + (aev,)))
    finally:
        loop.close()
    return res



# ----------------------------------------------------------------------------- activations that differ in their arguments
def param_activation_part(_):
    """`activate z "high"` and `activate z` (declared default "low") by two activators are two activations: each instance runs
    for as long as ITS activator does (and is restarted when it ends), whatever the order in which the activators end"""
    res = {"param_activation_cases": 0, "violations": []}
    for first, second in (('"high"', ""), ("", '"high"'), ('"high"', '"low"'), ('$level="high"', ""), ('"low"', "")):
        for order in (("E1", "E4"), ("E4", "E1"), ("E2", "E1", "E2", "E4")):
            src = ('flow z $level="low"\n  start ActZAction(level=$level)\n  match E2()\n\n'
                   f"flow a1\n  activate z {first}\n  match E1()\n\nflow a2\n  activate z {second}\n  match E4()\n\n"
                   "flow main\n  start a1\n  start a2\n  match Never()\n")
            val = lambda a: "high" if "high" in a else "low"
            want_alive = {"a1": val(first), "a2": val(second)}
            info = {"engine": "C06-param", "source": src, "order": list(order)}
            try:
                st = v2x.init_state(src)
                v2x.step(st, v2x.resolve_event(st, ("start_main",)), [], v2x.UIDS.n)
                alive = {"a1": True, "a2": True}
                for k, ev in enumerate(("start",) + order):
                    if ev != "start":
                        v2x.step(st, {"type": ev}, [], v2x.UIDS.n)
                        if ev == "E1":
                            alive["a1"] = False
                        if ev == "E4":
                            alive["a2"] = False
                    res["param_activation_cases"] += 1
                    running = sorted(fs.arguments.get("level") for fs in st.flow_id_states.get("z", []) if listening(fs))
                    want = sorted({want_alive[a] for a in alive if alive[a]})
                    if running != want:
                        res["violations"].append((f"activation-with-other-arguments:{first or 'default'}+{second or 'default'}",
                                                  f"activators alive {alive} after {list(('start',) + order)[:k + 1]}: running instances of z have level {running}, expected {want}", info))
                        break
            except Exception as e:
                res["violations"].append(("activation-with-other-arguments:raised", repr(e), info))
    seen, uniq = set(), []
    for v in res["violations"]:
        if v[0] not in seen:
            seen.add(v[0])
            uniq.append(v)
    res["violations"] = uniq
    return res


def tasks(tier):
    out = []
    d = {"quick": (4, 5, 5, 4), "thorough": (6, 7, 7, 6)}[tier]
    for gen, depth in ((t1_programs, d[0]), (t2_programs, d[1]), (t3_programs, d[2]), (t4_programs, d[3]), (t5_programs, d[1]), (t6_programs, d[2]), (t7_programs, d[0]), (t8_programs, d[0]), (t9_programs, d[0])):
        for src, act, once, evs, ints, info in gen(tier):
            out.append((src, act, once, evs, ints, info, depth))
    # the same scope / shared-action programs with action Started events in the alphabet
    for gen, depth in ((t4_programs, d[3] + 1), (t2_programs, d[1])):
        for src, act, once, evs, ints, info in gen(tier):
            out.append((src, act, once, evs[:3], ints, dict(info, started_events=True), depth, True))
    # the shared-action / scope programs driven the way the event-processing API drives the interpreter: every emitted
    # event (Start... / Stop... of actions, markers) comes back as an input event
    for gen, depth in ((t2_programs, d[1]), (t5_programs, d[1]), (t4_programs, d[3])):
        for src, act, once, evs, ints, info in gen(tier):
            out.append((src, act, once, evs, ints, dict(info, emitted_events_fed_back=True), depth, False, True))
    for i, (src, act, once, evs, ints, info) in enumerate(t1_programs(tier)):
        if i % (6 if tier == "quick" else 2) == 0:
            out.append((src, act, once, evs, ints, dict(info, emitted_events_fed_back=True), d[0], False, True))
    # label-started instances of activated flows, `deactivate`, flows reacting to returning Start / Stop events
    from vf.props import c06_more
    for gen, depth, fb in ((c06_more.t10_programs, d[2], False), (c06_more.t11_programs, d[2], False), (c06_more.t12_programs, d[0] - 1, True), (c06_more.t13_programs, d[0], False), (c06_more.t14_programs, d[0], False), (c06_more.t15_programs, d[2], False)):
        for src, act, once, evs, ints, info, opts in gen(tier):
            out.append((src, act, once, evs, ints, dict(info, emitted_events_fed_back=True) if fb else info, depth, False, fb, opts))
    if tier == "thorough":
        for i, (src, act, once, evs, ints, info) in enumerate(t1_programs(tier)):
            if i % 4 == 0:
                out.append((src, act, once, evs, ints, dict(info, started_events=True), d[0] - 1, True))
    return out


def par_pmap_once(fn):
    from vf import par
    return list(par.pmap(fn, [0]))


def run(rep, tier):
    from vf.e1run import run_e1
    import vf.props.c06 as me

    rep.assumptions += [
        "hierarchy templates T1 (child/parent/main: start|await|activate|group|when x held actions x finish|abort|never), "
        "T2 (siblings sharing an identical action), T3 (two activators, activated flow with/without waiting statement, nested activation), "
        "T4 (when / await-group scopes); every slot combination enumerated",
        "histories: all sequences over {E1..E4, Finished of each pending action (first 3), StopFlow of the parent} up to the depth in the evidence; all tie-breaks",
        "activators are known statically (activate statements come first in a flow)",
        "T10: activated flows with the start_new_flow_instance label (8 label positions: in front of / behind the first waiting statement, "
        "behind the second, last statement) x {one activator, two, main, nested activation} x {finish, abort}; an instance that passed a label "
        "behind its first waiting statement legitimately runs next to its successor (at most one instance in front of the label)",
        "T11: `deactivate g` by one activator (alone / next to a second one / main), g with and without the label; the flow that executed "
        "`deactivate` (marker event sent right after it) no longer counts as an activator",
        "T12 (emitted events fed back as process_events does): action held in a when / await-group scope that is closed in the step that starts "
        "the action x a parent / sibling reacting to the returning Start or Stop event by ending the holder",
        "T15: the restarted instance of an activated flow is stopped / finished through its instance uid by another flow",
        "T14: three heads of one conflict group with equal scores, two of them on the identical action, one of that pair a descendant of the third (every tie-break outcome)",
        "T13: the main flow itself ends (finish / abort) while flows and actions it started - earlier or by its last statement - are running",
    ]
    run_e1(rep, me, tier, budget_s=None if tier == "quick" else 1500)
    for r in par_pmap_once(param_activation_part):
        rep.set("param_activation_cases", r["param_activation_cases"])
        for sig, what, info in r["violations"]:
            rep.violation(sig, what, info)
    # binding of the feed-back emulation to the real event-processing API
    from vf import par
    cts = []
    for t in tasks(tier):
        if len(t) > 8 and t[8]:
            cts.append((t[0], t[3], t[4], 3 if tier == "quick" else 4, 40 if tier == "quick" else 400))
    cts = cts[:: (3 if tier == "quick" else 1)]
    agg = {"programs": 0, "histories": 0, "steps": 0}
    for r in par.pmap(conformance_task, cts):
        for k in agg:
            agg[k] += r[k]
        for sig, what, info in r["viol"]:
            raise RuntimeError("HARNESS-ERROR: " + sig + ": " + what + "\n" + info.get("source", ""))
    rep.set("feed_back_emulation_programs_compared_with_process_events", agg["programs"])
    rep.set("feed_back_emulation_steps_compared_with_process_events", agg["steps"])
    rep.add("traces_validated_against_impl", agg["steps"])
    rep.set("rule", "non-trivial = Stop events observed + states with a live activation + states with a shared running action")
    rep.set("distinct_nontrivial", rep.cov.get("action_stops", 0))
    rep.set("evaluations", rep.cov.get("transitions", 0))


def replay(rp):
    if rp.get("engine") == "C06-param":
        print(rp["source"])
        for sig, what, _i in param_activation_part(0)["violations"]:
            print(sig, ":", what)
        return 0
    from vf.props.c07 import replay as r
    return r(rp)
