"""C18, LLMRails level: the streaming path of the single-LLM-call mode (`rails.dialog.single_call`).

`actions/llm/generation.py` drives a private ("inner") StreamingHandler through a hand-over protocol:
buffering on, the LLM is started as a task, `wait_top_k_nonempty_lines(k=2)` takes the two lines with the
user / bot intent off the buffered text, then - in `generate_bot_message` - the pattern (prefix `  "`,
suffix `"`), the pipe to the caller's handler and the stop sequence `"\\n` are installed and the buffer is
flushed; what the caller's handler delivers is the bot message.  The "LLM output text" of the statement
is here the text behind the two intent lines, the configuration the one generation.py installs.

A real `LLMRails` (scripted token LLM, fake embedding engine) runs on the virtual asyncio loop of
vf.engines.aio; every token of every LLM call waits for an explorer-owned future, so a token arrives only
when everything runnable has run (the LLM is slow compared with the loop) and the explorer owns the order
in which the tokens of concurrent requests arrive.

  record_protocol()   one request with a recording handler class: which operations generation.py performs on
                      the inner handler before the first token and at the hand-over (between the return of
                      wait_top_k_nonempty_lines and `wait()`); the handler-level search of c18.py (mode
                      "handover") replays exactly the recorded operations, so it follows the library.
  single-request      family R1: realistic LLM texts x every split into <= 3 tokens (+ one token per
                      character / per word / per line); oracle of C18 on what the caller's handler delivers.
  overlapping         family R2: two streaming requests on ONE LLMRails x every chunking pattern over a set of
                      cut points x EVERY interleaving of their arrivals and token deliveries; every request
                      must deliver the bot message of its own LLM text, as it does alone.
"""
from __future__ import annotations

import asyncio
import contextvars
import itertools
import time

REQ = contextvars.ContextVar("c18_request_label", default=None)

COLANG = """
define user g
  "hi"

define flow
  user g
  bot g
"""
YAML = "rails:\n  dialog:\n    single_call:\n      enabled: True\nstreaming: True\n"
HEAD = "  g\nbot g\n"
K_LINES = 2

_APP = None


def app():
    """one LLMRails per process (built before the fork pool starts, inherited by the workers)"""
    global _APP
    if _APP is None:
        from langchain.llms.base import LLM
        from langchain_core.outputs import GenerationChunk

        from nemoguardrails import LLMRails, RailsConfig
        from vf.engines.world import EMB_YAML  # registers the fake embedding engine

        class TokenLLM(LLM):
            """plan(prompt) -> (chunks, gate); gate(i) -> awaitable | None is awaited before token i"""

            plan: object = None
            streaming: bool = True
            ncalls: int = 0

            class Config:
                arbitrary_types_allowed = True
                extra = "allow"

            @property
            def _llm_type(self):
                return "c18-token-llm"

            def _call(self, prompt, stop=None, run_manager=None, **kw):
                raise RuntimeError("HARNESS: synchronous LLM call in a streaming request")

            async def _acall(self, prompt, stop=None, run_manager=None, **kw):
                self.ncalls += 1
                chunks, gate = self.plan(prompt)
                for i, c in enumerate(chunks):
                    g = gate(i)
                    if g is not None:
                        await g
                    await run_manager.on_llm_new_token(token=c, chunk=GenerationChunk(text=c))
                return "".join(chunks)

        # an LLM call that is abandoned half-way (the stream was cut at a stop sequence, the execution is over) is
        # torn down by the garbage collector; what it prints then is not an observation
        import sys

        sys.unraisablehook = lambda *_a: None
        cfg = RailsConfig.from_content(colang_content=COLANG, yaml_content=YAML + EMB_YAML)
        llm = TokenLLM()
        rails = LLMRails(cfg, llm=llm, verbose=False)
        _APP = {"rails": rails, "llm": llm}
    return _APP


# ------------------------------------------------------------------ reference
def body_of(text, k=K_LINES):
    """the text behind the first k non-empty lines that are not comments (what
    `wait_top_k_nonempty_lines` documents to leave in the buffer); None when the text has no k such lines
    followed by the start of a further one (the hand-over never happens)"""
    lines = text.split("\n")
    seen = 0
    cut = None
    for i, ln in enumerate(lines):
        s = ln.strip()
        if s and s[0] != "#":
            seen += 1
            if seen == k and cut is None:
                cut = i
    if cut is None or seen <= k:
        return None
    return "\n".join(lines[cut + 1:])


def handover_token(chunks, k=K_LINES):
    """index of the token after which the buffered text shows more than k non-empty lines"""
    acc = ""
    for i, c in enumerate(chunks):
        acc += c
        if body_of(acc, k) is not None:
            return i, acc
    return None, acc


# ------------------------------------------------------------------ one execution
def _request(rails, label, out):
    async def run():
        from nemoguardrails.streaming import StreamingHandler

        REQ.set(label)
        h = StreamingHandler()
        got = out.setdefault(label, {"chunks": [], "handler": h})["chunks"]

        async def consume():
            async for c in h:
                got.append(c)

        t = asyncio.ensure_future(consume())
        res = await rails.generate_async(messages=[{"role": "user", "content": f"hi {label}"}], streaming_handler=h)
        out[label]["response"] = res
        # the consumer ends when the library closed the handler; a stream that is never closed is observed
        # as such (the request itself is done)
        for _ in range(4):
            await asyncio.sleep(0)
        out[label]["consumer_done"] = t.done()
        if not t.done():
            t.cancel()
        return res
    return run


def make_factory(plans):
    """plans = {label: chunks}"""
    from vf.engines import aio  # noqa

    def make(env):
        a = app()
        out = {}
        a["rails"].events_history_cache.clear()

        def plan(_prompt):
            label = REQ.get()
            if label not in plans:
                raise RuntimeError(f"HARNESS: LLM call outside a planned request ({label!r})")
            return plans[label], (lambda i: env.external(f"{label}.t{i}"))

        a["llm"].plan = plan
        for label in plans:
            env.arrival(label, _request(a["rails"], label, out))
        return {"out": out}
    return make


def observation(env, world, label):
    """(status, delivered text, completion of the caller's handler, response content, stream closed)"""
    o = world["out"].get(label, {})
    r = env.results.get(label)
    if r is None:
        status = "unfinished"
    elif r[0] == "ok":
        status = "ok"
    elif r[0] == "exc":
        status = "raised:" + type(r[1]).__name__
    else:
        status = r[0]
    resp = o.get("response")
    content = resp.get("content") if isinstance(resp, dict) else (None if resp is None else repr(resp))
    h = o.get("handler")
    return (status, "".join(x if isinstance(x, str) else repr(x) for x in o.get("chunks", [])),
            getattr(h, "completion", None), content, bool(o.get("consumer_done")))


def run_default(plans, script=None):
    """one execution: the given script of choices, then always the first enabled choice until nothing is enabled
    (the LLM calls deliver all their tokens, also behind the end of the stream)"""
    from vf.engines import aio

    env = aio.Env(granularity="quiescence")
    try:
        world = make_factory(plans)(env)
        env.settle()
        for lab in script or ():
            lab = tuple(lab)
            if lab not in env.enabled():
                raise RuntimeError(f"HARNESS: choice {lab!r} of the script is not enabled ({env.enabled()!r})")
            env.take(lab)
            env.settle()
        n = 0
        while env.enabled() and n < 2000:
            env.take(env.enabled()[0])
            env.settle()
            n += 1
        outcome = "done" if env.all_done() else "stuck"
        obs = {label: observation(env, world, label) for label in plans}
        trace = list(env.trace)
    finally:
        env.close()
    return obs, outcome, trace


# ------------------------------------------------------------------ the protocol generation.py follows
class ProtocolNotRecordable(RuntimeError):
    """generation.py does not follow ONE hand-over protocol (or not an atomic one): the handler-level model of
    c18_handover.py does not apply; the LLMRails-level families still judge the behaviour directly"""


DEFAULT_CONFIG = ('  "', '"', ('"\n',))   # what generation.py installs (used when the protocol cannot be recorded)


def record_protocol():
    """Run one request per chunking of a plain text with a RECORDING handler class in place of
    `generation.StreamingHandler`; -> {"pre": [...], "handover": [...], "k": k}: the operations performed on
    the inner handler before the first token and between the return of wait_top_k_nonempty_lines and wait().
    An operation is ("call", name, args, kwargs) or ("set", attribute, value); the caller's handler appears as
    the placeholder "<caller>".  The operations must be the same for every recorded chunking and no token may
    arrive inside the hand-over (else the handler-level model does not apply: harness error)."""
    import nemoguardrails.actions.llm.generation as gen
    from nemoguardrails.streaming import StreamingHandler

    import sys

    log = []
    OPS = ("enable_buffering", "disable_buffering", "set_pattern", "set_pipe_to", "wait_top_k_nonempty_lines", "wait")
    TOK = ("on_llm_new_token", "on_llm_end", "push_chunk", "on_chat_model_start", "on_llm_start")
    own_file = sys.modules[StreamingHandler.__module__].__file__

    def internal(depth):
        """is the code that performs the operation the handler class itself?"""
        return sys._getframe(depth).f_code.co_filename == own_file

    def enc(v):
        if isinstance(v, StreamingHandler):
            return "<caller>"
        if isinstance(v, (list, tuple)):
            return [enc(x) for x in v]
        return v

    class Recording(StreamingHandler):
        def __init__(self, *a, **kw):
            super().__init__(*a, **kw)
            log.append(("new",))

        def __setattr__(self, name, value):
            if not internal(2):
                log.append(("set", name, enc(value)))
            object.__setattr__(self, name, value)

    def wrap(name, is_op):
        orig = getattr(StreamingHandler, name)
        if asyncio.iscoroutinefunction(orig):
            async def m(self, *a, **kw):
                ext = not internal(2)
                if ext:
                    log.append(("call", name, enc(list(a)), {k: enc(v) for k, v in kw.items()}) if is_op else ("token", name))
                res = await orig(self, *a, **kw)
                if ext and is_op:
                    log.append(("ret", name))
                return res
        else:
            def m(self, *a, **kw):
                if not internal(2) and is_op:
                    log.append(("call", name, enc(list(a)), {k: enc(v) for k, v in kw.items()}))
                return orig(self, *a, **kw)
        m.__name__ = name
        return m

    for n_ in OPS:
        if hasattr(StreamingHandler, n_):
            setattr(Recording, n_, wrap(n_, True))
    for n_ in TOK:
        if hasattr(StreamingHandler, n_):
            setattr(Recording, n_, wrap(n_, False))

    text = HEAD + '  "Hi there!"'
    protos = []
    old = gen.StreamingHandler
    gen.StreamingHandler = Recording
    try:
        for chunks in ([text], list(text), [text[:12], text[12:20], text[20:]]):
            del log[:]
            obs, outcome, _tr = run_default({"rec": chunks})
            # what the request delivers is judged by the families, not here
            protos.append(_split_protocol(list(log)))
    finally:
        gen.StreamingHandler = old
    if any(p != protos[0] for p in protos[1:]):
        raise ProtocolNotRecordable(f"the hand-over protocol of generation.py differs between chunkings: {protos!r}")
    return protos[0]


def _split_protocol(log):
    if sum(1 for e in log if e == ("new",)) != 1:
        raise ProtocolNotRecordable(f"expected exactly one inner handler per request, log {log!r}")
    pre, hand = [], []
    phase = "pre"
    k = None
    for e in log:
        if e[0] == "new":
            continue
        if e[0] == "call" and e[1] == "wait_top_k_nonempty_lines":
            if phase != "pre":
                raise ProtocolNotRecordable(f"unexpected protocol {log!r}")
            k = (e[3].get("k") if e[3] else None) or (e[2][0] if e[2] else None)
            phase = "buffering"
        elif e[0] == "ret" and e[1] == "wait_top_k_nonempty_lines":
            phase = "handover"
        elif e[0] == "call" and e[1] == "wait":
            if phase != "handover":
                raise ProtocolNotRecordable(f"unexpected protocol {log!r}")
            phase = "streaming"
        elif e[0] == "ret":
            continue
        elif e[0] == "token":
            if phase in ("pre", "handover"):
                raise ProtocolNotRecordable(f"a token arrived in phase {phase!r}: the hand-over is not atomic, "
                                            f"the handler-level model does not apply; log {log!r}")
        else:
            if phase == "pre":
                pre.append(e)
            elif phase == "handover":
                hand.append(e)
            else:
                raise ProtocolNotRecordable(f"operation {e!r} on the inner handler in phase {phase!r}; log {log!r}")
    if phase != "streaming" or not isinstance(k, int):
        raise ProtocolNotRecordable(f"incomplete protocol {log!r}")
    return {"pre": pre, "handover": hand, "k": k}


def config_of(proto):
    """(prefix, suffix, stop) the recorded hand-over installs"""
    prefix = suffix = None
    stop = ()
    for e in proto["pre"] + proto["handover"]:
        if e[0] == "call" and e[1] == "set_pattern":
            kw = dict(e[3])
            args = list(e[2])
            prefix = kw.get("prefix", args[0] if args else None)
            suffix = kw.get("suffix", args[1] if len(args) > 1 else None)
        elif e[0] == "set" and e[1] == "stop":
            stop = tuple(e[2])
        elif e[0] == "set" and e[1] == "prefix":
            prefix = e[2]
        elif e[0] == "set" and e[1] == "suffix":
            suffix = e[2]
    return (prefix, suffix, stop)


# ------------------------------------------------------------------ family R1: one request
R1_TEXTS = (
    HEAD + '  "Hi!"',
    HEAD + '  "A,\nB."',                         # a bot message of two lines
    HEAD + '  "A"\nb\n  "m"',                    # the LLM goes on with a further turn (what the stop sequence is for)
    "  g\r\nbot g\r\n" + '  "A,\r\nB."',        # \r\n line ends
    HEAD + '  "A\u2028b\x0cc"',                  # unicode line separator / form feed inside the message
    HEAD + '\n  "Hi!"\n',                       # an empty line before the message, a line end behind it
)


def named_chunkings(text):
    import re

    yield list(text)
    yield [w for w in re.findall(r"\S*\s*", text) if w]
    yield [ln for ln in text.splitlines(True) if ln]
    yield [text[i:i + 2] for i in range(0, len(text), 2)]


def r1_task(task):
    """all chunkings of one text whose first cut is at `first` (None: the named ones and the single token)"""
    from vf.props import c18

    ti, first, cfg = task
    text = R1_TEXTS[ti]
    body = body_of(text)
    rd = c18.readings(body, cfg)
    res = {"runs": 0, "by_delivered": {}, "viol": [], "not_closed": 0, "stop_inside_buffered_part": 0}
    if first is None:
        cks = [[text]] + list(named_chunkings(text))
    else:
        cks = [[text[:first], text[first:]]] + [[text[:first], text[first:j], text[j:]] for j in range(first + 1, len(text))]
    for chunks in cks:
        obs, outcome, _tr = run_default({"r": chunks})
        o = obs["r"]
        res["runs"] += 1
        hi, acc = handover_token(chunks)
        inside = any(st in body_of(acc) for st in cfg[2]) if hi is not None else False
        if inside:
            res["stop_inside_buffered_part"] += 1
        if not o[4]:
            res["not_closed"] += 1
        key = (o[0] if outcome == "done" else outcome + ":" + o[0], o[1], o[2])
        cur = res["by_delivered"].get(key)
        if cur is None or (len(chunks), chunks) < (len(cur[0]), cur[0]):
            res["by_delivered"][key] = (chunks, inside, o[3])
    return ti, res


def r1_judge(ti, cfg, merged, rep_violation):
    """merged: {(status, delivered, completion): (smallest chunking, stop inside the buffered part, content)}"""
    from vf.props import c18

    text = R1_TEXTS[ti]
    body = body_of(text)
    rd = c18.readings(body, cfg)
    base = {"level": "rails", "family": "single-request", "text": text, "body": body,
            "config": c18.cfg_name(cfg), "readings": sorted(rd)}
    good = sorted((k for k in merged if k[0] == "ok" and k[1] in rd), key=lambda k: (len(merged[k][0]), merged[k][0]))
    exp = good[0][1] if good else sorted(rd)[0]
    n = 0
    for key in sorted(merged, key=lambda k: (len(merged[k][0]), merged[k][0])):
        status, deliv, comp = key
        chunks, inside, content = merged[key]
        where = "stop-inside-buffered-part" if inside else "plain"
        rp = dict(base, chunkings=[chunks] + ([merged[good[0]][0]] if good else []), delivered=[deliv], expect=f"one of {sorted(rd)!r}")
        if status != "ok":
            rep_violation(f"rails:request-{status}:{where}",
                          f"LLM text {text!r} as tokens {chunks!r}: the streaming request ended as {status}, delivered {deliv!r}", rp)
            n += 1
            continue
        if deliv not in rd or deliv != exp:
            kind = c18._diff(deliv, exp, cfg)
            rep_violation(f"rails:chunking:{kind}:{where}",
                          f"single-call streaming, LLM text {text!r}: tokens {chunks!r} deliver {deliv!r}; "
                          f"the bot message behind the two intent lines is {exp!r}"
                          + (f" (tokens {merged[good[0]][0]!r} deliver that)" if good else ""), rp)
            n += 1
        if comp != deliv:
            kind = c18._diff(comp, deliv, cfg)
            rep_violation(f"rails:completion:{kind}:{where}",
                          f"single-call streaming, LLM text {text!r}: tokens {chunks!r} deliver {deliv!r} but the caller's "
                          f"handler ends with completion {comp!r}", dict(rp, completion=[comp]))
            n += 1
    return n


# ------------------------------------------------------------------ family R2: two overlapping requests
R2_MESSAGES = {"A": "Hello Alice!", "B": "Good evening, Bob."}


def r2_text(label):
    return HEAD + f'  "{R2_MESSAGES[label]}"'


def r2_cutpoints(text, tier):
    """cut points of the chunking patterns: end of the first line, end of the second line, behind the opening
    quote, (thorough: the middle of the message, before the closing quote)"""
    p1 = text.index("\n") + 1
    p2 = text.index("\n", p1) + 1
    p3 = text.index('"') + 1
    pts = [p1, p2, p3]
    if tier != "quick":
        pts += [p3 + (len(text) - p3) // 2, len(text) - 1]
    return pts


def r2_patterns(tier):
    n = 3 if tier == "quick" else 5
    return [tuple(c) for r in range(n + 1) for c in itertools.combinations(range(n), r)]


def split_at(text, cuts):
    out, prev = [], 0
    for c in sorted(cuts):
        out.append(text[prev:c])
        prev = c
    out.append(text[prev:])
    return [x for x in out if x]


def r2_plans(pattern, tier):
    plans = {}
    for label in ("A", "B"):
        t = r2_text(label)
        pts = r2_cutpoints(t, tier)
        plans[label] = split_at(t, [pts[i] for i in pattern])
    return plans


def r2_task(task):
    """every interleaving of the arrivals and token deliveries of two requests with one chunking pattern"""
    from vf.engines import aio
    from vf.props import c18

    pattern, tier, cfg, budget_s = task
    plans = r2_plans(pattern, tier)
    ref = {}
    for label in plans:
        rd = c18.readings(body_of(r2_text(label)), cfg)
        alone, outcome, _tr = run_default({label: plans[label]})
        ref[label] = (rd, alone[label], outcome)
    res = {"executions": 0, "states": 0, "transitions": 0, "validated": 0, "overlapping": 0, "complete": True,
           "viol": [], "outcomes": set(), "pattern": list(pattern)}

    def bad(sig, what, trace, extra):
        if not any(v[0] == sig for v in res["viol"]):
            res["viol"].append((sig, what + f" | schedule {trace}", dict(
                level="rails", family="overlapping-requests", plans=plans, trace=[list(t) for t in trace], **extra)))

    for label, (rd, alone, outcome) in ref.items():
        if outcome != "done" or alone[0] != "ok" or alone[1] not in rd:
            bad("overlap:harness:request-alone-off-reference", f"request {label} alone with tokens {plans[label]!r}: {outcome} {alone!r}",
                [], {"delivered": [alone[1]]})
    if res["viol"]:
        res["outcomes"] = 0
        return res

    def on_execution(env, world, info):
        res["executions"] += 1
        trace = list(info["trace"])
        starts = [i for i, t in enumerate(trace) if t[0] == "start"]
        first_label = trace[starts[0]][1]
        # overlap: the second request arrives before the last token of the first one
        last_tok_first = max((i for i, t in enumerate(trace) if t[0] == "ext" and str(t[1]).startswith(first_label + ".")), default=-1)
        if len(starts) > 1 and starts[1] < last_tok_first:
            res["overlapping"] += 1
        out = []
        for label in plans:
            o = observation(env, world, label)
            out.append(o[:3])
            rd, alone, _oc = ref[label]
            other = [x for x in plans if x != label][0]
            want = alone[1]
            if o[0] != "ok" or info["outcome"] != "done":
                st = o[0] if o[0] != "ok" else info["outcome"]
                if o[1] != want:
                    bad(f"overlap:request-{st}:own-text-not-delivered",
                        f"request {label} (tokens {plans[label]!r}) overlapping with request {other}: ended as {st}, its handler "
                        f"delivered {o[1]!r}, alone it delivers {want!r}", trace, {"delivered": [o[1]], "expect": want})
                continue
            if o[1] != want:
                if o[1] and (R2_MESSAGES[other] in o[1] or o[1] in R2_MESSAGES[other]):
                    kind = "text-of-the-other-request-delivered"
                else:
                    kind = "own-text-changed:" + c18._diff(o[1], want, cfg)
                bad(f"overlap:{kind}",
                    f"request {label} (tokens {plans[label]!r}) overlapping with request {other}: its handler delivered {o[1]!r}, "
                    f"alone (and by the statement) {want!r}", trace, {"delivered": [o[1]], "expect": want})
            elif o[2] != o[1]:
                bad("overlap:completion-differs-from-delivered",
                    f"request {label} overlapping with request {other}: delivered {o[1]!r} but completion {o[2]!r}",
                    trace, {"delivered": [o[1]], "completion": [o[2]]})
        res["outcomes"].add(tuple(out))

    def observe(env, world):
        return tuple(observation(env, world, label) for label in plans)

    ex = aio.Explorer(make_factory(plans), on_execution, observe=observe, max_choices=400, validate_mod=17,
                      deadline=time.time() + budget_s, granularity="quiescence", stop_when_done=False)
    st = ex.run()
    for k in ("states", "transitions", "validated"):
        res[k] = st[k]
    res["complete"] = st["complete"]
    res["outcomes"] = len(res["outcomes"])
    return res


# ------------------------------------------------------------------ replay
def replay(rp):
    from vf.props import c18

    c18.lib()
    app()
    print(f"property C18 | {rp.get('signature')}")
    if rp.get("family") == "overlapping-requests":
        plans = {k: list(v) for k, v in rp["plans"].items()}
        for label in plans:
            alone, outcome, _tr = run_default({label: plans[label]})
            print(f"request {label} alone, tokens {plans[label]!r}: {outcome}, delivered {alone[label][1]!r}, completion {alone[label][2]!r}")
        obs, outcome, trace = run_default(plans, script=rp["trace"])
        print(f"schedule {rp['trace']!r}: {outcome}")
        for label, o in obs.items():
            print(f"  request {label}: status {o[0]}, delivered {o[1]!r}, completion {o[2]!r}, response {o[3]!r}, stream closed {o[4]}")
    else:
        print(f"LLM text {rp['text']!r}; bot message by the statement: {rp.get('expect')}")
        for chunks in rp["chunkings"]:
            obs, outcome, _tr = run_default({"r": list(chunks)})
            o = obs["r"]
            print(f"  tokens {chunks!r}: {outcome}/{o[0]}, delivered {o[1]!r}, completion {o[2]!r}, response {o[3]!r}, stream closed {o[4]}")
    return 0
