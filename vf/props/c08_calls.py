"""C08 - families about WHO calls and about HOW OFTEN the argument expressions are evaluated (engine E1, single traces).

(4) nested family: a chain of three instances main -> L0 -> L1 -> L2 in which every level is called with its own arguments.
    The chain is a flow calling itself (direct recursion), two flows calling each other (mutual recursion) or three different
    flows; all of them declare the SAME parameter names (and `main` holds locals of these names too), so that every instance has
    a caller with variables named like its parameters.  Each instance is bound from ITS call and ITS declaration only: an omitted
    parameter gets the declared default, never the value the calling instance holds under that name; when an inner instance
    assigns to its parameters / locals, the same-named variables of the instances above it keep their values; the value given
    to `return` travels up level by level.
    Enumerated: <=2 parameters x default masks x call shape of the outermost call (strict) x call shape of the inner calls
    (strict and loose) x chain kind x inner call form.  Oracle: the Python-like binder of c08.py per level.

(5) argument-evaluation family: one call statement in which >=2 arguments are expressions whose value differs from one
    evaluation to the next (`$q.pop(0)`, `$q.pop()`, `uid()`), written with identical or with differently spaced text, with or
    without a literal argument between them.  Every parameter receives the value of ITS argument expression evaluated in the
    caller: n such arguments are n evaluations, so the parameters hold n different queue entries (any evaluation order is
    accepted) resp. n different uids, and the caller's queue has lost exactly those n entries.
    Call forms: `send StartFlow(flow_id=.., ..)`, `send callee(..).Start()` (full oracle) and `start` / `await` (only what the
    callee received: that the caller of these two forms stays parked when an argument expression is not repeatable is the
    recorded finding `scenario:argument-expression-changes-after-the-call:*`).
"""
from __future__ import annotations

import itertools

from vf.engines import v2x
from vf.props.c08 import DEFAULTS, NotOthers, call_shapes, expected_binding, lit, same, signature_text

# ----------------------------------------------------------------------------------------------- (4) nested family
NEST_KINDS = {"direct": ("walk", "walk", "walk"), "mutual": ("walk", "relay", "walk"), "distinct": ("fa", "fb", "fc")}
NEST_FORMS = ("assign_await", "start_match", "await")
OUTER_VALS = ["o0", "o1"]           # arguments of the call main -> L0
MAIN_LOCALS = ["m0", "m1"]          # main's own locals $p0 / $p1
DEPTH = 2                           # levels 0..2


def inner_expr(i):
    """argument expression for parameter i in the call made by the instance of level $d"""
    return f"$d * 100 + {i + 1}"


def inner_val(level, i):
    """value of that expression in the instance of level `level` - 1 (the caller of `level`)"""
    return (level - 1) * 100 + i + 1


def paren_call(name, first, shape, texts):
    parts = [first] + [texts[i] for i in shape[0]] + [f"p{i}={texts[i]}" for i in shape[1]]
    return f"{name}(" + ", ".join(parts) + ")"


def nested_program(k, mask, oshape, ishape, kind, form):
    names = NEST_KINDS[kind]
    nxt = {}
    for a, b in zip(names, names[1:]):
        nxt.setdefault(a, b)
    for n in names:
        nxt.setdefault(n, n)
    echo = ", ".join(f"p{i}=$p{i}" for i in range(k))
    src = ""
    for name in dict.fromkeys(names):
        call = paren_call(nxt[name], "$d + 1", ishape, [inner_expr(i) for i in range(k)])
        how = {"assign_await": f"    $inner = await {call}\n",
               "start_match": f"    start {call} as $ref\n    match $ref.Finished() as $ev\n    $inner = $ev.return_value\n",
               "await": f"    await {call}\n"}[form]
        src += (f"flow {name} $d {signature_text(k, mask)}\n"
                "  $v = $d * 10\n"
                '  $inner = "not-assigned"\n'
                f'  send Echo(who="{name}", d=$d, {echo})\n'
                f"  if $d < {DEPTH}\n" + how +
                "  else\n    match Go()\n"
                '    $inner = "leaf"\n'
                f"  send Post(d=$d, v=$v, inner=$inner, {echo})\n"
                "  $ret = [$d, " + ", ".join(f"$p{i}" for i in range(k)) + ", $inner]\n"
                + "".join(f'  $p{i} = "changed"\n' for i in range(k)) +
                '  $v = "changed"\n  $inner = "changed"\n'
                "  return $ret\n\n")
    src += ("flow main\n" + "".join(f"  $p{i} = {lit(MAIN_LOCALS[i])}\n" for i in range(k)) +
            '  $v = "caller"\n  $d = "main-d"\n'
            f"  $r = await {paren_call(names[0], '0', oshape, [lit(OUTER_VALS[i]) for i in range(k)])}\n"
            "  send After(r=$r, v=$v, d=$d, " + echo + ")\n  match Never()\n")
    return src


def nested_tasks(tier):
    out = []
    for k in (1, 2):
        for mask in itertools.product([False, True], repeat=k):
            oshapes = call_shapes(k, mask)
            if tier != "thorough":
                # outermost call: everything by position, everything by name, nothing given (the inner calls keep every shape)
                oshapes = [s for s in oshapes if s in ((tuple(range(k)), ()), ((), tuple(range(k))), ((), ()))]
            for oshape in oshapes:
                for ishape in call_shapes(k, mask) + call_shapes(k, mask, loose=True):
                    for kind in NEST_KINDS:
                        for form in NEST_FORMS:
                            out.append((k, mask, oshape, ishape, kind, form))
    return out


def check_nested(task):
    k, mask, oshape, ishape, kind, form = task
    src = nested_program(k, mask, oshape, ishape, kind, form)
    names = NEST_KINDS[kind]
    given_o, given_i = set(oshape[0]) | set(oshape[1]), set(ishape[0]) | set(ishape[1])
    res = {"programs": 1, "steps": 0, "viol": [], "defaults_used": (k - len(given_o)) + DEPTH * (k - len(given_i)),
           "named": len(oshape[1]) + DEPTH * len(ishape[1]), "positional": len(oshape[0]) + DEPTH * len(ishape[0]),
           "inner_omits_what_the_caller_holds": int(len(given_i) < k)}
    info = {"engine": "C08-nested", "source": src, "task": [k, list(mask), [list(oshape[0]), list(oshape[1])], [list(ishape[0]), list(ishape[1])], kind, form]}
    where = (f"chain {' -> '.join(('main',) + names)} ({kind}), every flow `$d {signature_text(k, mask)}`; main calls "
             f"`{paren_call(names[0], '0', oshape, [lit(OUTER_VALS[i]) for i in range(k)])}`, each level calls `{form.replace('_', ' ')}: "
             f"{paren_call('<next>', '$d + 1', ishape, [inner_expr(i) for i in range(k)])}`")

    def bad(sig, what):
        res["viol"].append((sig, f"{where}: {what}", info))

    try:
        st = v2x.init_state(src)
    except Exception as e:
        bad(f"binding:nested:{kind}:{form}:program-rejected", f"{e!r}"[:200])
        return res
    try:
        v2x.step(st, v2x.resolve_event(st, ("start_main",)), [], v2x.UIDS.n)
        res["steps"] += 1
    except Exception as e:
        bad(f"binding:nested:{kind}:{form}:call-raised", f"the interpreter raised {type(e).__name__}: {str(e)[:120]}")
        return res
    echoes = [e for e in st.outgoing_events if e["type"] == "Echo"]
    if [(e.get("who"), e.get("d")) for e in echoes] != [(names[L], L) for L in range(DEPTH + 1)]:
        bad(f"binding:nested:{kind}:{form}:callee-not-started", f"Echo events (who, $d) {[(e.get('who'), e.get('d')) for e in echoes]}, expected {[(names[L], L) for L in range(DEPTH + 1)]}")
        return res
    if any(e["type"] in ("Post", "After") for e in st.outgoing_events):
        bad(f"binding:nested:{kind}:{form}:caller-continued-before-callee-finished", "Post / After emitted before the innermost instance finished")
    # ---- binding per level
    seen = []                      # per level: the parameter values the instance holds
    for L, e in enumerate(echoes):
        if L == 0:
            exp = expected_binding(k, mask, oshape, OUTER_VALS[:k])
            shape = oshape
        else:
            exp = expected_binding(k, mask, ishape, [inner_val(L, i) for i in range(k)])
            shape = ishape
        caller_holds = (MAIN_LOCALS[:k] if L == 0 else [v for v in seen[L - 1] if v is not None])
        vals = []
        for i in range(k):
            want = exp[f"p{i}"]
            if isinstance(want, NotOthers):
                want = NotOthers(list(want.others) + list(caller_holds))
            got = e.get(f"p{i}", "<missing>")
            if not same(got, want):
                how = ("omitted-without-default-took-anothers-value" if isinstance(want, NotOthers) else "default") if (i not in shape[0] and i not in shape[1]) \
                    else ("positional" if i in shape[0] else "named")
                leak = " (that is the value the CALLING instance holds under this name)" if any(same(got, c) for c in caller_holds) else ""
                bad(f"binding:nested:{kind}:{form}:{how}", f"instance {names[L]} of level {L}: parameter p{i} = {got!r}, expected {want!r}{leak}")
            vals.append(got)        # what the instance really holds: the later expectations (unchanged after the callee's assignments, return list) build on it
        seen.append(vals)
    try:
        v2x.step(st, {"type": "Go"}, [], v2x.UIDS.n)
        res["steps"] += 1
    except Exception as e:
        bad(f"binding:nested:{kind}:{form}:call-raised", f"the interpreter raised {type(e).__name__} on Go: {str(e)[:120]}")
        return res
    posts = [e for e in st.outgoing_events if e["type"] == "Post"]
    after = [e for e in st.outgoing_events if e["type"] == "After"]
    if [e.get("d") for e in posts] != list(range(DEPTH, -1, -1)) or len(after) != 1:
        bad(f"binding:nested:{kind}:{form}:caller-not-resumed", f"after Go: Post events of levels {[e.get('d') for e in posts]} and {len(after)} After event(s), expected levels {list(range(DEPTH, -1, -1))} and 1")
        return res
    # ---- return values and private variables, innermost first
    ret = {}
    for e in posts:
        L = e["d"]
        want_inner = "leaf" if L == DEPTH else (ret[L + 1] if form != "await" else "not-assigned")
        if not same(e.get("inner", "<missing>"), want_inner):
            bad(f"return-value:nested:{kind}:{form}", f"instance of level {L} holds $inner = {e.get('inner', '<missing>')!r} after its call returned, expected {want_inner!r}")
        got_own = [e.get(f"p{i}", "<missing>") for i in range(k)]
        if not same(e.get("v"), L * 10) or not all(same(g, w) for g, w in zip(got_own, seen[L])):
            bad(f"locals:nested:{kind}:{form}:variable-of-the-calling-instance-changed",
                f"instance of level {L} after its callee assigned \"changed\" to its own parameters and $v: $v = {e.get('v')!r}, parameters {got_own!r}; expected {L * 10!r}, {seen[L]!r}")
        ret[L] = [L] + seen[L] + [want_inner]
    a = after[0]
    if not same(a.get("r", "<missing>"), ret[0]):
        bad(f"return-value:nested:{kind}:{form}", f"`$r = await {names[0]}(..)` in main assigned {a.get('r', '<missing>')!r}, expected {ret[0]!r}")
    got_main = [a.get(f"p{i}", "<missing>") for i in range(k)]
    if not same(a.get("v"), "caller") or not same(a.get("d"), "main-d") or not all(same(g, w) for g, w in zip(got_main, MAIN_LOCALS)):
        bad(f"locals:nested:{kind}:{form}:variable-of-the-calling-instance-changed", f"main after the call: $v = {a.get('v')!r}, $d = {a.get('d')!r}, $p.. = {got_main!r}")
    return res


# ----------------------------------------------------------------------------------------------- (5) argument evaluation
QUEUE = ["x", "y", "z", "w", "u", "t", "s2", "r", "k", "j", "i", "h"]
EXPR_KINDS = {"pop-front": ("$q.pop(0)", "$q.pop( 0 )", "$q.pop(0 )"), "pop-back": ("$q.pop()", "$q.pop( )", "$q.pop(  )"), "uid": ("uid()", "uid( )", "uid(  )")}
TEXTS = ("identical", "respaced")
PATTERNS = ("EE", "EEE", "ELE", "EEL", "LEE")         # E = the non-repeatable expression, L = the literal "s"
EVAL_FORMS = ("send_startflow", "send_start", "start", "await")
PNAMES = "abc"


def eval_tasks(tier):
    out = []
    for pattern in PATTERNS:
        n = len(pattern)
        for kind in EXPR_KINDS:
            for text in TEXTS:
                for form in EVAL_FORMS:
                    for m in ([0] if form == "send_startflow" else range(n + 1)):       # m positional arguments, the others named
                        for rev in ((False, True) if n - m >= 2 else (False,)):
                            out.append((pattern, kind, text, form, m, rev))
    return out


def eval_program(pattern, kind, text, form, m, rev):
    n = len(pattern)
    exprs, j = [], 0
    for c in pattern:
        if c == "L":
            exprs.append('"s"')
        else:
            exprs.append(EXPR_KINDS[kind][j if text == "respaced" else 0])
            j += 1
    named = list(range(m, n))
    if rev:
        named.reverse()
    parts = [exprs[i] for i in range(m)] + [f"{PNAMES[i]}={exprs[i]}" for i in named]
    args = ", ".join(parts)
    started = '  match FlowStarted(flow_id="callee")\n'      # (the caller's next `send` would compete with the callee's first one)
    call = {"send_startflow": f'  send StartFlow(flow_id="callee", {args})\n' + started, "send_start": f"  send callee({args}).Start()\n" + started,
            "start": f"  start callee({args})\n", "await": f"  await callee({args})\n"}[form]
    echo = ", ".join(f"{PNAMES[i]}=${PNAMES[i]}" for i in range(n))
    return (f"flow callee {' '.join('$' + PNAMES[i] for i in range(n))}\n  send Echo({echo})\n  match Go()\n\n"
            f"flow main\n  $q = {lit(QUEUE)}\n" + call + "  send After(q=$q)\n  match Never()\n"), args


def check_eval(task):
    pattern, kind, text, form, m, rev = task
    src, args = eval_program(*task)
    n = len(pattern)
    res = {"programs": 1, "steps": 0, "viol": [], "defaults_used": 0, "named": n - m, "positional": m}
    info = {"engine": "C08-eval", "source": src, "task": [pattern, kind, text, form, m, rev]}
    sig = f"binding:argument-expression-evaluated-for-each-parameter:{form}:{kind}:{text}"
    where = f"`flow callee {' '.join('$' + PNAMES[i] for i in range(n))}` called `{form}: callee({args})` with $q = {QUEUE!r}"
    try:
        st = v2x.init_state(src)
        v2x.step(st, v2x.resolve_event(st, ("start_main",)), [], v2x.UIDS.n)
        res["steps"] += 1
    except Exception as e:
        res["viol"].append((sig + ":call-raised", f"{where}: {type(e).__name__}: {str(e)[:160]}", info))
        return res
    echoes = [e for e in st.outgoing_events if e["type"] == "Echo"]
    if len(echoes) != 1:
        res["viol"].append((sig + ":callee-not-started", f"{where}: {len(echoes)} Echo events; outgoing={[e['type'] for e in st.outgoing_events]}", info))
        return res
    got = [echoes[0].get(PNAMES[i], "<missing>") for i in range(n)]
    e_idx = [i for i, c in enumerate(pattern) if c == "E"]
    problems = []
    for i, c in enumerate(pattern):
        if c == "L" and not same(got[i], "s"):
            problems.append(f"parameter ${PNAMES[i]} = {got[i]!r}, expected 's'")
    e_vals = [got[i] for i in e_idx]
    if kind == "uid":
        if not all(isinstance(v, str) and v for v in e_vals) or len(set(map(repr, e_vals))) != len(e_vals):
            problems.append(f"the parameters bound to the {len(e_idx)} `uid()` arguments hold {e_vals!r}: expected {len(e_idx)} different ids (one evaluation per argument)")
        taken = []
    else:
        taken = QUEUE[:len(e_idx)] if kind == "pop-front" else QUEUE[-len(e_idx):]
        if sorted(map(repr, e_vals)) != sorted(map(repr, taken)):
            problems.append(f"the parameters bound to the {len(e_idx)} `{EXPR_KINDS[kind][0]}` arguments hold {e_vals!r}: expected the {len(e_idx)} different entries {taken!r} (one evaluation per argument, any order)")
    if form.startswith("send_"):
        after = [e for e in st.outgoing_events if e["type"] == "After"]
        rest = [x for x in QUEUE if x not in taken]
        if len(after) != 1:
            problems.append(f"{len(after)} After events after the send statement")
        elif not same(after[0].get("q"), rest):
            problems.append(f"the caller's $q is {after[0].get('q')!r} after the call, expected {rest!r}")
    if problems:
        res["viol"].append((sig, f"{where}: " + "; ".join(problems), info))
    return res


# ----------------------------------------------------------------------------------------------- replay
def replay(rp):
    t = rp["task"]
    if rp["engine"] == "C08-nested":
        r = check_nested((t[0], tuple(t[1]), (tuple(t[2][0]), tuple(t[2][1])), (tuple(t[3][0]), tuple(t[3][1])), t[4], t[5]))
    else:
        r = check_eval(tuple(t))
    print(rp["source"])
    for sig, what, _i in r["viol"]:
        print(sig, ":", what)
    if not r["viol"]:
        print("no violation on this tree; recorded:", rp.get("what"))
    return 0
