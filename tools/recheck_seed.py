#!/venv/bin/python
"""Re-run checks against a seed already stored under /verif/seeded/<name>/ and update its meta.json.

usage: recheck_seed.py <name> [--checks C05,C09] [--tier quick] [--note "what was extended"] [--demo]
The patch is applied in a scratch worktree of /repo HEAD outside /repo and /verif; the worktree is removed afterwards.
With --demo the demonstration is re-run as well (with and without the patch).
"""
import glob, json, os, shutil, subprocess, sys

name = sys.argv[1]
d = f"/verif/seeded/{name}"
meta = json.load(open(d + "/meta.json"))
checks = [meta["property"]]
tier, note, demo = "quick", None, False
for i, a in enumerate(sys.argv):
    if a == "--checks":
        checks = sys.argv[i + 1].split(",")
    if a == "--tier":
        tier = sys.argv[i + 1]
    if a == "--note":
        note = sys.argv[i + 1]
    if a == "--demo":
        demo = True
wt = f"/tmp/re_{name}"
snap = f"/tmp/vsnap_{name}"
subprocess.run(["rsync", "-a", "--delete", "--exclude", "evidence", "--exclude", "replays", "--exclude", "seeded", "--exclude", ".git", "/verif/", snap + "/"], check=True)
subprocess.run(["git", "-C", "/repo", "worktree", "remove", "--force", wt], capture_output=True)
subprocess.run(["git", "-C", "/repo", "worktree", "add", "-q", "--detach", wt, "HEAD"], check=True)
try:
    if demo:
        dm = [p for p in glob.glob(d + "/*demo*.py")][0]
        env = dict(os.environ, PYTHONPATH=wt, PYTHONDONTWRITEBYTECODE="1")

        def run_demo():
            shutil.copy(dm, wt + "/" + os.path.basename(dm))
            cmd = ["/venv/bin/python", "-m", "pytest", "-q", "-p", "no:cacheprovider", "-x", os.path.basename(dm)] if os.path.basename(dm).startswith("test_") else ["/venv/bin/python", os.path.basename(dm)]
            r = subprocess.run(cmd, cwd=wt, env=env, capture_output=True, text=True, timeout=900)
            os.unlink(wt + "/" + os.path.basename(dm))
            return r.returncode
        meta["demo_without_patch_exit"] = run_demo()
    r = subprocess.run(["git", "apply", d + "/patch.diff"], cwd=wt, capture_output=True, text=True)
    if r.returncode != 0:
        r = subprocess.run(["git", "apply", "--3way", d + "/patch.diff"], cwd=wt, capture_output=True, text=True)
    if r.returncode != 0:
        print("PATCH DOES NOT APPLY to HEAD", r.stderr[-300:])
        sys.exit(2)
    if demo:
        meta["demo_with_patch_exit"] = run_demo()
    det = dict(meta.get("checks", {}))
    for c in checks:
        r = subprocess.run(["./vcheck", c, "--tier", tier], cwd=snap, env=dict(os.environ, VERIF_REPO=wt), capture_output=True, text=True, timeout=7200)
        sigs = [l.strip()[len("violation: "):][:200] for l in r.stdout.split("\n") if l.strip().startswith("violation:")]
        det[c] = {"exit": r.returncode, "violations": sigs[:6], "violation_line": "VIOLATION property=" in r.stdout}
        if r.returncode != 0 and not det[c]["violation_line"]:
            det[c]["crashed"] = (r.stdout + r.stderr)[-300:]
        print(c, det[c]["exit"], det[c]["violation_line"], sigs[:2])
    meta["checks"] = det
    meta["detected_by"] = [c for c, x in det.items() if x["exit"] == 1 and x["violation_line"]]
    meta["rechecked_at_repo_head"] = subprocess.run(["git", "-C", "/repo", "rev-parse", "--short", "HEAD"], capture_output=True, text=True).stdout.strip()
    if note:
        meta["strengthened"] = note
    json.dump(meta, open(d + "/meta.json", "w"), indent=1)
finally:
    subprocess.run(["git", "-C", "/repo", "worktree", "remove", "--force", wt], capture_output=True)
    shutil.rmtree(snap, ignore_errors=True)
