#!/venv/bin/python
"""Write /verif/seeded/RESULTS.md from the meta.json files."""
import glob, json, os
rows = []
for m in sorted(glob.glob("/verif/seeded/*/meta.json")):
    d = json.load(open(m))
    name = os.path.basename(os.path.dirname(m))
    sigs = []
    for c, r in d.get("checks", {}).items():
        for v in r.get("violations", [])[:1]:
            sigs.append(f"{c}: {v.split(':')[0]}")
    rows.append((name, d["property"], d.get("baseline_ok"), d.get("demo_with_patch_exit"), d.get("demo_without_patch_exit"),
                 ",".join(d.get("detected_by", [])) or "MISSED", "; ".join(sigs), d.get("strengthened", "")))
out = ["# Seeded property-breaking changes and which check reports them", "",
       "Each change was written by a fresh sub-agent that saw only the property text and a scratch worktree; I re-validated every one",
       "(`tools/validate_seed.py`): patch applies to /repo HEAD, pinned suite 389/389 with the patch, demo fails with / passes without the patch,",
       "then the named quick checks were run against the patched worktree (`VERIF_REPO=...`).", "",
       "| seed | property | suite ok | demo with/without patch (exit) | reported by | first signature | note |", "|---|---|---|---|---|---|---|"]
for r in rows:
    out.append(f"| {r[0]} | {r[1]} | {r[2]} | {r[3]} / {r[4]} | {r[5]} | {r[6]} | {r[7]} |")
open("/verif/seeded/RESULTS.md", "w").write("\n".join(out) + "\n")
print("\n".join(out[-len(rows):]))
