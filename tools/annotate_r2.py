#!/venv/bin/python
"""Round-2 seeds: record in meta.json what the first validation run said and which extension of the check
reports the change now (validate_seed.py rewrites meta.json, so this is re-applied after re-validation)."""
import json, os

NOTES = {
    "C02_r2_1": "check extended before validation (state-continued conversations with option forms), prompted by the seed notes",
    "C02_r2_2": "check extended before validation (state-continued conversations with option forms), prompted by the seed notes",
    "C03_r2_1": "missed at first (faults were one exception class); C03 now injects an alphabet of exception classes (NotImplementedError, KeyError, ... ) at every action site",
    "C03_r2_2": "missed at first (stub actions were `async def` only); C03 now registers the actions as async / plain sync / sync wrapper returning the coroutine, and the fault-free action sequence is an oracle",
    "C04_r2_1": "check extended before validation (patterns taken from variables), prompted by the seed notes",
    "C04_r2_2": "check extended before validation (action progress events between start and finish), prompted by the seed notes",
    "C05_r2_1": "check extended before validation (mixed / cross-loop competitor families), prompted by the seed notes",
    "C05_r2_2": "check extended before validation (mixed / cross-loop competitor families), prompted by the seed notes",
    "C08_r2_2": "missed at first (shapes omitting a parameter without default were excluded); C08 now runs them with the weaker NotOthers oracle",
    "C08_r2_3": "extra candidate of the C08 agent; crashed the harness at first (interpreter exception) - now a `call-raised` violation",
    "C09_r2_1": "missed at first by C09 (caught by C06 after template T7: parent and child wait for the same event); C09 got the predicate running-flow-below-finished-instance",
    "C09_r2_2": "missed at first; C09's invariant is now also evaluated on every state reached after a save/restore or ageing cut (C11's lock-step explorer as host)",
    "C10_r2_1": "missed at first; C10 part R drives stationary programs (start_new_flow_instance label family) with periodic input: cost per round / live instances must not grow, budget per event",
    "C10_r2_2": "missed at first (no error escaped run_to_completion any more in the fault list); its own trigger - `start helper 1 2 3` escaping from _start_flow - turned out to be a genuine defect (fixed dfa745c, after which the demo no longer fails); C10 part X injects an interpreter error at a seam and reports the mutant (exception-escapes-process_events:after-second-escaping-error)",
    "C12_r2_1": "missed at first (when groups had <= 2 branches or equal lengths); C12 enumerates 3-4 branch when groups with all branch-length combinations (v1 and v2)",
    "C12_r2_2": "missed at first; C12 compiles every parse result a second time (two runtimes on one RailsConfig) and checks the second compilation as well",
    "C15_r2_1": "missed at first (no streaming); C15's concurrent part now serves streaming requests, each with its own handler, and compares the chunks with the isolated run",
    "C15_r2_2": "missed at first (no action took a context variable in the C15 worlds); C15 now has a rails+dialog-action world and compares the arguments every action was called with",
    "C17_r2_1": "missed at first; corpus extended with containers whose keys / nested members are unsupported values",
    "C17_r2_2": "corpus extended before validation (bot intents naming non-string context variables), prompted by the seed notes",
    "C19_r2_1": "missed at first by quick (thorough had the configuration); quick now has 3 batched requests at loop-iteration granularity with max_batch_size 1, 2",
    "C19_r2_2": "crashed the harness at first (class-level dict surviving between executions = replay divergence); library-global containers are now reset per execution (GlobalsGuard) and three-request two-model scenarios report the wrong vector",
    "C20_r2_2": "missed at first (no request carried `context`); the thread alphabet now has a context-carrying request form",
}
for name, note in NOTES.items():
    p = f"/verif/seeded/{name}/meta.json"
    if not os.path.exists(p):
        print("missing", name)
        continue
    d = json.load(open(p))
    d["strengthened"] = note
    if name == "C10_r2_2":
        d["after_strengthening"] = {"repo_head": "dfa745c", "detected_by": ["C10"],
                                   "violations": ["exception-escapes-process_events:after-second-escaping-error:faulty", "exception-escapes-process_events:after-second-escaping-error:faulty-twice"],
                                   "note": "at dfa745c the seed's own demo passes with the patch (its trigger was repaired); the patch still applies and the pinned suite still passes"}
        d["detected_by"] = ["C10"]
    json.dump(d, open(p, "w"), indent=1)
print("annotated", len(NOTES))
