#!/venv/bin/python
"""Generate /verif/MANIFEST.json from the table below + validate against the schema."""
import json, os, subprocess, sys
ROOT = os.path.dirname(os.path.dirname(os.path.abspath(__file__)))
sys.path.insert(0, ROOT)
from vf.manifest_table import CHECKS, NOT_APPLICABLE, ENGINES, HOOK_COMMITS

props = [json.loads(l)["id"] for l in open(os.path.join(ROOT, "properties.jsonl"))]
checks = []
for pid in props:
    if pid not in CHECKS:
        continue
    c = CHECKS[pid]
    checks.append({
        "property_id": pid,
        "quick_cmd": f"./vcheck {pid} --tier quick",
        "thorough_cmd": f"./vcheck {pid} --tier thorough",
        "evidence_file": f"/verif/evidence/{pid}.json",
        "replay_cmd_template": f"./vcheck {pid} --replay {{path}}",
        "engine": c["engine"],
        "level_claimed": {"category": c["level"], "text": c["text"], "design_ref": c.get("design_ref", f"DESIGN.md section 3, {pid}")},
        "level_note": c["note"],
        "technique": c["technique"],
    })
na = [{"property_id": p, "reason": NOT_APPLICABLE.get(p, "check not built yet in this round; planned per DESIGN.md section 6")}
      for p in props if p not in CHECKS]
m = {
    "version": 1,
    "setup_cmd": "./vcheck selftest",
    "hooks": {
        "guard": "NEMO_GUARDRAILS_VERIF",
        "enable": "no source hooks: all seams are installed from outside by module attribute replacement (vf/seams.py); checks import /repo's working tree directly (editable install)",
        "baseline_off_cmd": "/verif/tools/run_baseline.py /repo",
        "source_commits": HOOK_COMMITS,
        "add_only": True,
    },
    "engines": ENGINES,
    "checks": checks,
    "not_applicable": na,
    "notes": "All checks explore the real implementation exhaustively within stated bounds (see DESIGN.md). known_findings.json lists genuine defects (known / fixed).",
}
json.dump(m, open(os.path.join(ROOT, "MANIFEST.json"), "w"), indent=1)
try:
    import jsonschema
    jsonschema.validate(m, json.load(open("/root/.vp/MANIFEST.schema.json")))
    print("MANIFEST.json valid;", len(checks), "checks,", len(na), "not_applicable")
except ImportError:
    r = subprocess.run(["python3-vt", "-c", "import json,jsonschema;jsonschema.validate(json.load(open('%s/MANIFEST.json')),json.load(open('/root/.vp/MANIFEST.schema.json')));print('valid')" % ROOT], capture_output=True, text=True)
    print(r.stdout, r.stderr[-500:], len(checks), "checks,", len(na), "not_applicable")
