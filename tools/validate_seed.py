#!/venv/bin/python
"""Validate a seeded mutant produced by a sub-agent and record it under /verif/seeded/.

usage: validate_seed.py <PROP> <n> [--checks C05,C09] [--tier quick]
Looks for /tmp/seedout/<PROP>/mutant_<n>.diff and the demo file (test_demo_<n>.py / demo_<n>.py).
Steps (all in a scratch worktree outside /repo and /verif): apply the patch, run the pinned baseline,
run the demo with and without the patch, run the named checks against the patched worktree.
"""
import glob, json, os, shutil, subprocess, sys, time

prop, n = sys.argv[1], sys.argv[2]
checks = [prop]
tier = "quick"
srcroot = "/tmp/seedout"
tag = ""
for i, a in enumerate(sys.argv):
    if a == "--checks":
        checks = sys.argv[i + 1].split(",")
    if a == "--tier":
        tier = sys.argv[i + 1]
    if a == "--src":
        srcroot = sys.argv[i + 1]
    if a == "--tag":
        tag = sys.argv[i + 1]
src = f"{srcroot}/{prop}"
diff = f"{src}/mutant_{n}.diff"
demos = [p for p in glob.glob(f"{src}/*demo_{n}*") if p.endswith(".py")]
assert os.path.exists(diff), diff
assert demos, "no demo"
demo = demos[0]
wt = f"/tmp/val_{prop}{tag}_{n}"
snap = f"/tmp/vsnap_{prop}{tag}_{n}"
subprocess.run(["rsync", "-a", "--delete", "--exclude", "evidence", "--exclude", "replays", "--exclude", "seeded", "--exclude", ".git", "/verif/", snap + "/"], check=True)
subprocess.run(["git", "-C", "/repo", "worktree", "remove", "--force", wt], capture_output=True)
subprocess.run(["git", "-C", "/repo", "worktree", "add", "-q", "--detach", wt, "HEAD"], check=True)
env = dict(os.environ, PYTHONPATH=wt, PYTHONDONTWRITEBYTECODE="1")
meta = {"property": prop, "mutant": int(n), "repo_head": subprocess.run(["git", "-C", "/repo", "rev-parse", "--short", "HEAD"], capture_output=True, text=True).stdout.strip()}


def run_demo():
    shutil.copy(demo, wt + "/" + os.path.basename(demo))
    if os.path.basename(demo).startswith("test_"):
        cmd = ["/venv/bin/python", "-m", "pytest", "-q", "-p", "no:cacheprovider", "-x", os.path.basename(demo)]
    else:
        cmd = ["/venv/bin/python", os.path.basename(demo)]
    r = subprocess.run(cmd, cwd=wt, env=env, capture_output=True, text=True, timeout=900)
    os.unlink(wt + "/" + os.path.basename(demo))
    return r.returncode, (r.stdout + r.stderr)[-600:]


try:
    rc0, out0 = run_demo()
    meta["demo_without_patch_exit"] = rc0
    r = subprocess.run(["git", "apply", diff], cwd=wt, capture_output=True, text=True)
    if r.returncode != 0:
        r = subprocess.run(["git", "apply", "--3way", diff], cwd=wt, capture_output=True, text=True)
    meta["patch_applies"] = r.returncode == 0
    if r.returncode != 0:
        print("PATCH DOES NOT APPLY", r.stderr[-400:])
        print(json.dumps(meta, indent=1))
        sys.exit(2)
    rc1, out1 = run_demo()
    meta["demo_with_patch_exit"] = rc1
    t0 = time.time()
    b = subprocess.run(["/verif/tools/run_baseline.py", wt], capture_output=True, text=True)
    meta["baseline"] = b.stdout.strip().split("\n")[0] if b.stdout else b.stderr[-200:]
    meta["baseline_ok"] = b.returncode == 0
    det = {}
    for c in checks:
        r = subprocess.run(["./vcheck", c, "--tier", tier], cwd=snap, env=dict(os.environ, VERIF_REPO=wt), capture_output=True, text=True, timeout=3600)
        sigs = [l.strip()[len("violation: "):][:200] for l in r.stdout.split("\n") if l.strip().startswith("violation:")]
        det[c] = {"exit": r.returncode, "violations": sigs[:6], "violation_line": "VIOLATION property=" in r.stdout}
        if r.returncode != 0 and not det[c]["violation_line"]:
            det[c]["crashed"] = (r.stdout + r.stderr)[-300:]
    meta["checks"] = det
    meta["detected_by"] = [c for c, d in det.items() if d["exit"] == 1 and d["violation_line"]]
    valid = meta["baseline_ok"] and rc0 == 0 and rc1 != 0
    meta["valid_seed"] = valid
    print(json.dumps(meta, indent=1))
    if valid:
        out = f"/verif/seeded/{prop}{tag}_{n}"
        os.makedirs(out, exist_ok=True)
        shutil.copy(diff, out + "/patch.diff")
        shutil.copy(demo, out + "/" + os.path.basename(demo))
        notes = f"{src}/notes_{n}.md"
        if os.path.exists(notes):
            shutil.copy(notes, out + "/notes.md")
            meta["needs_to_manifest"] = "see notes.md (written by the seeding sub-agent)"
        meta["ran"] = ["git apply patch.diff in a scratch worktree of /repo HEAD", "tools/run_baseline.py <worktree>", "demo with and without the patch (PYTHONPATH=<worktree>)",
                       f"VERIF_REPO=<worktree> ./vcheck <check> --tier {tier} for " + ",".join(checks)]
        json.dump(meta, open(out + "/meta.json", "w"), indent=1)
finally:
    subprocess.run(["git", "-C", "/repo", "worktree", "remove", "--force", wt], capture_output=True)
    shutil.rmtree(snap, ignore_errors=True)
