#!/venv/bin/python
"""Run the repository's pinned baseline suite (command from /root/.vp/BASELINE.json) in a
given checkout (default /repo) and compare with the stable-pass list.  Exit 0 iff every
stable test passes.  usage: run_baseline.py [repo_dir] [pytest args...]"""
import json, os, subprocess, sys, tempfile
import xml.etree.ElementTree as ET

repo = sys.argv[1] if len(sys.argv) > 1 and os.path.isdir(sys.argv[1]) else "/repo"
extra = [a for a in sys.argv[1:] if a != repo]
base = json.load(open("/root/.vp/BASELINE.json"))
stable = set(base["stable_pass"])
fd, xml = tempfile.mkstemp(suffix=".xml"); os.close(fd)
env = dict(os.environ)
env.pop("NEMO_GUARDRAILS_VERIF", None)
env["PYTHONPATH"] = repo  # make a scratch worktree win over the editable install
cmd = ["/venv/bin/python", "-m", "pytest", "-ra", "-q", "-p", "no:cacheprovider", "--timeout=900",
       "--continue-on-collection-errors", f"--junitxml={xml}", "-x" if False else "-q"] + extra
p = subprocess.run(cmd, cwd=repo, env=env, stdout=subprocess.PIPE, stderr=subprocess.STDOUT, text=True)
passed = set()
for tc in ET.parse(xml).getroot().iter("testcase"):
    name = f"{tc.get('classname')}::{tc.get('name')}"
    if not any(ch.tag in ("failure", "error", "skipped") for ch in tc):
        passed.add(name)
os.unlink(xml)
missing = sorted(stable - passed)
if 0 < len(missing) <= 5:
    # a timing assertion (tests.v2_x.test_state_serialization::test_serialization: average < 0.2 s) fails on a loaded
    # machine: tests that did not pass are run once more, alone
    for m in list(missing):
        mod, name = m.split("::", 1)
        path = mod.replace(".", "/") + ".py"
        r = subprocess.run(["/venv/bin/python", "-m", "pytest", "-q", "-p", "no:cacheprovider", "--timeout=900", f"{path}::{name}"],
                           cwd=repo, env=env, stdout=subprocess.PIPE, stderr=subprocess.STDOUT, text=True)
        if r.returncode == 0:
            print("  (passed when run again alone:", m + ")")
            passed.add(m)
    missing = sorted(stable - passed)
print(f"baseline: {len(stable & passed)}/{len(stable)} stable tests pass in {repo}")
for m in missing[:40]:
    print("  NOT PASSING:", m)
sys.exit(1 if missing else 0)
